/* E3 (BOUNDED stand-in, never counted as proof): init + binson_parser_verify on ALL byte strings
 * of exactly VC_N bytes agrees with the executable specification spec/ref_binson.h, for the root
 * kind VC_ROOT_ARRAY and max_depth VC_MD; when nesting is the first obstacle the error code is the
 * matching MAX_DEPTH_* code. Plain CBMC with --unwind/--unwinding-assertions: complete for the bound. */
#include <stdlib.h>
#include <string.h>
#define REF_MAXSTK ((VC_N / 2) + 2)
#include "ref_binson.h"
#include "binson_parser.c"

size_t vc_k, vc_j, vc_memcmp_idx, vc_cstr_max, vc_strlen_result, vc_memcmp_n;
int vc_memcmp_result; const void *vc_memcmp_a, *vc_memcmp_b;

uint8_t vc_wit[VC_N];      /* copy of the input bytes, so that a counterexample trace shows them */

void h_verify_ref(void)
{
    uint8_t *buf = malloc(VC_N);
    __CPROVER_assume(buf != NULL);
    for (size_t i = 0; i < VC_N; i++) { vc_wit[i] = buf[i]; }
    binson_parser p;                       /* struct contents unconstrained: "arbitrary prior contents" */
    binson_state *st = malloc(VC_MD * sizeof(binson_state));
    __CPROVER_assume(st != NULL);
    p.state = st;
    p.max_depth = VC_MD;
#if VC_ROOT_ARRAY
    binson_parser_init_array(&p, buf, VC_N);
#else
    binson_parser_init_object(&p, buf, VC_N);
#endif
    bool v = binson_parser_verify(&p);
    int why;
    int r = ref_verify(buf, VC_N, VC_ROOT_ARRAY, VC_MD, &why);
    __CPROVER_assert(v == (r != 0), "verify accepts exactly the documents the specification accepts");        /*@ B/verify-iff-ref */
    __CPROVER_assert(!(r == 0 && why == RW_DEPTH_OBJECT) || p.error_flags == BINSON_ERROR_MAX_DEPTH_OBJECT,
                     "object nesting as first obstacle reports MAX_DEPTH_OBJECT");                            /*@ B/depth-object-code */
    __CPROVER_assert(!(r == 0 && why == RW_DEPTH_ARRAY) || p.error_flags == BINSON_ERROR_MAX_DEPTH_ARRAY,
                     "array nesting as first obstacle reports MAX_DEPTH_ARRAY");                              /*@ B/depth-array-code */
    __CPROVER_assert(!v || (p.error_flags == BINSON_ERROR_NONE && p.buffer_used == 0),
                     "a successful verify leaves no error and the cursor at the start");                      /*@ B/verify-canonical */
    __CPROVER_assert(v || p.error_flags != BINSON_ERROR_NONE, "a failed verify leaves an error code");        /*@ B/verify-false-has-error */
    /* (an accepted document does not exist for every length, e.g. 3-byte objects: not required) */
    if (!v) { __CPROVER_assert(0, "vacuity control: a rejected document of this length exists"); }
}
