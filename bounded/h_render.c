/* E3 (BOUNDED stand-in): binson_parser_to_string / binson_parser_print on ALL byte strings of exactly
 * VC_N bytes. snprintf/printf are the event-level stand-ins of stubs/vc_stdio_evt.h (assumed libc
 * contract: sizes exact, characters not modelled). The reference is an independent token walk that
 * emits the expected event sequence: {"name":value,...} / [v,...] with exactly one comma between
 * siblings. VC_MODE 1: NULL size query with a stale *size; 2: buffer of exactly cap bytes, every
 * cap in 0..needed+2; 3: print. Checked: size protocol, no store at or beyond the capacity (C13);
 * the event sequence equals the reference rendering, print == to_string (C14). */
#include <stdlib.h>
#include <string.h>
#define REF_MAXSTK ((VC_N / 2) + 2)
#define VC_EVMAX (3 * VC_N + 4)
#include "ref_binson.h"
#include "vc_stdio_evt.h"
#include "binson_parser.c"

size_t vc_k, vc_j, vc_memcmp_idx, vc_cstr_max, vc_strlen_result, vc_memcmp_n, vc_len_sum;
int vc_memcmp_result; const void *vc_memcmp_a, *vc_memcmp_b;
vc_evlog vc_log_snp, vc_log_prf;
static vc_evlog ref_log;
uint8_t vc_wit[VC_N];

size_t nondet_size_t(void);

#ifndef VC_MD
#define VC_MD 3
#endif

/* expected events of a valid document */
static void ref_events(const uint8_t *b, size_t n)
{
    uint8_t is_arr[REF_MAXSTK]; uint8_t count[REF_MAXSTK]; uint8_t after_name[REF_MAXSTK];
    size_t sp = 0, pos = 0;
    ref_log.n = 0; ref_log.len = 0;
    for (;;) {
        ref_token t = ref_scan(b, n, pos);
        if (t.kind == RT_ERR) { return; }
        pos += t.len;
        if (t.kind == RT_OBJ_END || t.kind == RT_ARR_END) {
            vc_log_add(&ref_log, EV_LIT, (t.kind == RT_OBJ_END) ? '}' : ']', 1, 1);
            sp--;
            if (sp == 0) { return; }
            continue;
        }
        if (sp > 0 && !is_arr[sp - 1] && !after_name[sp - 1]) {
            if (count[sp - 1] > 0) { vc_log_add(&ref_log, EV_LIT, ',', 1, 1); }
            count[sp - 1] = 1;
            vc_log_add(&ref_log, EV_SPAN_NAME, (uint64_t) (size_t) (b + t.pay_off), t.pay_len,
                       3 + vc_len_span((const char *) (b + t.pay_off), t.pay_len));
            after_name[sp - 1] = 1;
            continue;
        }
        if (sp > 0 && is_arr[sp - 1]) { if (count[sp - 1] > 0) { vc_log_add(&ref_log, EV_LIT, ',', 1, 1); } count[sp - 1] = 1; }
        if (sp > 0 && !is_arr[sp - 1]) { after_name[sp - 1] = 0; }
        if (t.kind == RT_OBJ_BEGIN || t.kind == RT_ARR_BEGIN) {
            vc_log_add(&ref_log, EV_LIT, (t.kind == RT_OBJ_BEGIN) ? '{' : '[', 1, 1);
            is_arr[sp] = (t.kind == RT_ARR_BEGIN); count[sp] = 0; after_name[sp] = 0; sp++;
        } else if (t.kind == RT_BOOL) {
            vc_log_add(&ref_log, EV_BOOL, (uint64_t) (t.ival != 0), 0, t.ival ? 4 : 5);
        } else if (t.kind == RT_INT) {
            vc_log_add(&ref_log, EV_I64, vc_u64_of(t.ival), 0, vc_len_i64(t.ival));
        } else if (t.kind == RT_DOUBLE) {
            uint64_t u = 0;
            for (int i = 0; i < 8; i++) { u |= ((uint64_t) b[t.pay_off + i]) << (8 * i); }
            vc_log_add(&ref_log, EV_DBL, u, 0, 3 + (size_t) (u & 3U));
        } else if (t.kind == RT_STRING) {
            vc_log_add(&ref_log, EV_SPAN_VALUE, (uint64_t) (size_t) (b + t.pay_off), t.pay_len,
                       2 + vc_len_span((const char *) (b + t.pay_off), t.pay_len));
        } else if (t.kind == RT_BYTES) {
            vc_log_add(&ref_log, EV_LIT, '"', 3, 3);                          /* "\"0x" */
            for (size_t i = 0; i < t.pay_len; i++) { vc_log_add(&ref_log, EV_HEX, b[t.pay_off + i], 0, 2); }
            vc_log_add(&ref_log, EV_LIT, '"', 1, 1);
        }
    }
}

static void compare_log(const vc_evlog *lg)
{
    __CPROVER_assert(lg->n == ref_log.n, "as many output events as the reference rendering has");                   /*@ B/render-event-count */
    size_t g = nondet_size_t();
    __CPROVER_assume(g < ref_log.n && g < VC_EVMAX);
    __CPROVER_assert(lg->e[g].kind == ref_log.e[g].kind && lg->e[g].a == ref_log.e[g].a && lg->e[g].b == ref_log.e[g].b,
                     "every output event (literal, separator, conversion and its argument) equals the reference rendering"); /*@ B/render-equal */
}

void h_render(void)
{
    uint8_t *buf = malloc(VC_N);
    __CPROVER_assume(buf != NULL);
    for (size_t i = 0; i < VC_N; i++) { vc_wit[i] = buf[i]; }
    int why;
    int valid = ref_verify(buf, VC_N, VC_ROOT_ARRAY, VC_MD, &why);
    if (valid) { ref_events(buf, VC_N); }
    size_t need = valid ? ref_log.len : 0;

    binson_parser p;
    binson_state *st = malloc(VC_MD * sizeof(binson_state));
    __CPROVER_assume(st != NULL);
    p.state = st; p.max_depth = VC_MD;
#if VC_ROOT_ARRAY
    binson_parser_init_array(&p, buf, VC_N);
#else
    binson_parser_init_object(&p, buf, VC_N);
#endif
    vc_log_snp.n = 0; vc_log_snp.len = 0; vc_log_prf.n = 0; vc_log_prf.len = 0;
#if VC_MODE == 1
    size_t q = nondet_size_t();
    bool r0 = binson_parser_to_string(&p, NULL, &q, false);
    __CPROVER_assert(!r0, "a NULL buffer never succeeds");                                                          /*@ B/null-query-false */
    __CPROVER_assert(!valid || q == need + 1, "NULL query reports text length + terminator, whatever *size held");  /*@ B/size-exact */
    if (valid) { compare_log(&vc_log_snp); }
#elif VC_MODE == 2
    size_t cap = nondet_size_t();
    __CPROVER_assume(cap <= need + 2);
    char *out = malloc(cap);
    __CPROVER_assume(out != NULL);
    size_t sz = cap;
    bool r = binson_parser_to_string(&p, out, &sz, false);
    __CPROVER_assert(valid || !r, "to_string returns false for an invalid document");                               /*@ B/invalid-false */
    if (valid) {
        __CPROVER_assert(r == (cap >= need + 1), "succeeds exactly when the capacity holds text + terminator");      /*@ B/fits-iff */
        __CPROVER_assert(r || sz == need + 1, "on failure *size is the required size, the same for every capacity"); /*@ B/size-exact */
        __CPROVER_assert(!r || sz == need, "on success *size is the text length");                                  /*@ B/size-on-success */
        compare_log(&vc_log_snp);
    }
#else
    bool rp = binson_parser_print(&p);
    __CPROVER_assert(rp == (valid != 0), "print succeeds exactly on valid documents");                              /*@ B/print-iff-valid */
    if (valid) { compare_log(&vc_log_prf); }
#endif
    if (valid) { __CPROVER_assert(0, "vacuity control: a valid document of this length exists"); }
}
