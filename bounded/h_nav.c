/* E3 (BOUNDED stand-in, never counted as proof): one fixed call sequence (VC_OP0..VC_OP7, chosen by
 * the runner) is executed against the real parser and against the reference cursor of
 * spec/ref_binson.h on ALL valid documents of exactly VC_N bytes (optionally over the byte
 * alphabet VC_ALPHA) on which the sequence is protocol-following according to the reference
 * cursor. Every return value, get_depth, get_type, get_name, the typed getters and the raw span
 * must agree, and no error may be raised. Plain CBMC, --unwind with unwinding assertions:
 * complete for the bound. Decides (up to the bound) C06, C07, C11 and the "valid => traversal
 * succeeds" half of C08. */
#include <stdlib.h>
#include <string.h>
#define REF_MAXSTK ((VC_N / 2) + 2)
#include "ref_binson.h"
#include "binson_parser.c"

size_t vc_k, vc_j, vc_memcmp_idx, vc_cstr_max, vc_strlen_result, vc_memcmp_n;
int vc_memcmp_result; const void *vc_memcmp_a, *vc_memcmp_b;

_Bool nondet_bool(void);
unsigned char nondet_uchar(void);

#define OP_NONE       0
#define OP_ENTER_ROOT 1
#define OP_NEXT       2
#define OP_INTO_OBJ   3
#define OP_INTO_ARR   4
#define OP_LEAVE_OBJ  5
#define OP_LEAVE_ARR  6
#define OP_RAW        7
#define OP_FIELD_A    8     /* lookup of the symbolic 1-byte name A */
#define OP_FIELD_B    9     /* lookup of the symbolic 1-byte name B */
#define OP_FIELD_AB   10    /* lookup of the 2-byte name A B */

static binson_parser p;
static ref_cursor rc;
static uint8_t *buf;
static uint8_t nm[2];
uint8_t vc_wit[VC_N];      /* copy of the input bytes, so that a counterexample trace shows them */

static binson_type ref_type(int k)
{
    return (k == RT_OBJ_BEGIN) ? BINSON_TYPE_OBJECT : (k == RT_ARR_BEGIN) ? BINSON_TYPE_ARRAY :
           (k == RT_BOOL) ? BINSON_TYPE_BOOLEAN : (k == RT_INT) ? BINSON_TYPE_INTEGER :
           (k == RT_DOUBLE) ? BINSON_TYPE_DOUBLE : (k == RT_STRING) ? BINSON_TYPE_STRING :
           (k == RT_BYTES) ? BINSON_TYPE_BYTES : BINSON_TYPE_NONE;
}

static void compare_current(void)
{
    __CPROVER_assert(binson_parser_get_type(&p) == ref_type(rc.cur.kind), "get_type is the type of the reference cursor's current element");  /*@ B/nav-type */
    if (rc.has_name) {
        bbuf *nb = binson_parser_get_name(&p);
        __CPROVER_assert(nb != NULL && nb->bptr == buf + rc.name_off && nb->bsize == rc.name_len,
                         "get_name is the exact sub-span holding the field name");                                                          /*@ B/nav-name-span */
    }
    if (rc.cur.kind == RT_INT) {
        __CPROVER_assert(binson_parser_get_integer(&p) == rc.cur.ival, "get_integer is the encoded value");                                 /*@ B/nav-integer */
    } else if (rc.cur.kind == RT_BOOL) {
        __CPROVER_assert(binson_parser_get_boolean(&p) == (rc.cur.ival != 0), "get_boolean is the encoded value");                          /*@ B/nav-boolean */
    } else if (rc.cur.kind == RT_STRING) {
        bbuf *s = binson_parser_get_string_bbuf(&p);
        __CPROVER_assert(s != NULL && s->bptr == buf + rc.cur.pay_off && s->bsize == rc.cur.pay_len,
                         "get_string_bbuf is the exact sub-span holding the string");                                                       /*@ B/nav-string-span */
    } else if (rc.cur.kind == RT_BYTES) {
        bbuf *s = binson_parser_get_bytes_bbuf(&p);
        __CPROVER_assert(s != NULL && s->bptr == buf + rc.cur.pay_off && s->bsize == rc.cur.pay_len,
                         "get_bytes_bbuf is the exact sub-span holding the bytes");                                                         /*@ B/nav-bytes-span */
    } else if (rc.cur.kind == RT_DOUBLE) {
        union { double d; uint64_t u; } x;
        x.d = binson_parser_get_double(&p);
        uint64_t le = 0;
        for (int i = 0; i < 8; i++) { le |= ((uint64_t) buf[rc.cur.pay_off + i]) << (8 * i); }
        __CPROVER_assert(x.u == le, "get_double is bit-identical to the 8 payload bytes");                                                  /*@ B/nav-double-bits */
    }
}

/* -DVC_NO_LIB: reference-only variant of the same harness, used for the (cheap) feasibility
 * run: "some valid document of this length admits the whole sequence" */
#ifdef VC_NO_LIB
#define LIBCALL(e) ((rr) != 0)
#else
#define LIBCALL(e) (e)
#endif

static void step(int op)
{
    bool rl = false; int rr = 0;
#ifndef VC_DOC
    /* histories that have entered the listed known finding are not compared further (the pinned
     * run of that finding reports it); everything else is */
    __CPROVER_assume(!rc.hazard);
#endif
    switch (op) {
    case OP_NONE:
        return;
    case OP_ENTER_ROOT:
        __CPROVER_assume(rc.sp == 0 && rc.pending);
        rr = ref_enter(&rc);
#if VC_ROOT_ARRAY
        rl = LIBCALL(binson_parser_go_into_array(&p));
#else
        rl = LIBCALL(binson_parser_go_into_object(&p));
#endif
        break;
    case OP_NEXT:
        __CPROVER_assume(ref_inside(&rc));
        rr = ref_next(&rc);
        rl = LIBCALL(binson_parser_next(&p));
        break;
    case OP_INTO_OBJ:
        __CPROVER_assume(ref_inside(&rc) && rc.have_cur && ref_can_enter(&rc, 0));
        rr = ref_enter(&rc);
        rl = LIBCALL(binson_parser_go_into_object(&p));
        break;
    case OP_INTO_ARR:
        __CPROVER_assume(ref_inside(&rc) && rc.have_cur && ref_can_enter(&rc, 1));
        rr = ref_enter(&rc);
        rl = LIBCALL(binson_parser_go_into_array(&p));
        break;
    case OP_LEAVE_OBJ:
        __CPROVER_assume(ref_can_leave(&rc, 0));
        rr = ref_leave(&rc);
        rl = LIBCALL(binson_parser_leave_object(&p));
        break;
    case OP_LEAVE_ARR:
        __CPROVER_assume(ref_can_leave(&rc, 1));
        rr = ref_leave(&rc);
        rl = LIBCALL(binson_parser_leave_array(&p));
        break;
    case OP_RAW: {
        __CPROVER_assume(ref_inside(&rc) && rc.have_cur && rc.pending);
        bbuf raw; size_t off, len;
        rr = ref_raw(&rc, &off, &len);
        raw.bptr = buf + off; raw.bsize = len;      /* (overwritten by the library call) */
        rl = LIBCALL(binson_parser_get_raw(&p, &raw));
        __CPROVER_assert(!rl || (raw.bptr == buf + off && raw.bsize == len),
                         "get_raw returns exactly BEGIN..matching END of the current container");                                           /*@ B/raw-span */
        break;
    }
    case OP_FIELD_A:
    case OP_FIELD_B:
    case OP_FIELD_AB: {
        __CPROVER_assume(ref_in_object(&rc));
        const uint8_t *q = (op == OP_FIELD_B) ? &nm[1] : &nm[0];
        size_t ql = (op == OP_FIELD_AB) ? 2 : 1;
        rr = ref_field(&rc, q, ql);
        rl = LIBCALL(binson_parser_field_with_length(&p, (const char *) q, ql));
        break;
    }
    default:
        __CPROVER_assume(0);
    }
    __CPROVER_assert(rl == (rr != 0), "return value equals the reference cursor's");                                                        /*@ B/nav-return */
#ifndef VC_NO_LIB
    __CPROVER_assert(p.error_flags == BINSON_ERROR_NONE, "no error is raised on a protocol-following call");                                /*@ B/nav-no-error */
    __CPROVER_assert(binson_parser_get_depth(&p) == ref_depth(&rc), "get_depth moves by exactly one per object entered or left");           /*@ B/nav-depth */
#endif
#ifndef VC_NO_LIB
    if (rr && (op == OP_NEXT || op == OP_FIELD_A || op == OP_FIELD_B || op == OP_FIELD_AB)) {
        compare_current();
    }
#endif
}

#ifndef VC_OP0
#define VC_OP0 OP_NONE
#endif
#ifndef VC_OP1
#define VC_OP1 OP_NONE
#endif
#ifndef VC_OP2
#define VC_OP2 OP_NONE
#endif
#ifndef VC_OP3
#define VC_OP3 OP_NONE
#endif
#ifndef VC_OP4
#define VC_OP4 OP_NONE
#endif
#ifndef VC_OP5
#define VC_OP5 OP_NONE
#endif
#ifndef VC_OP6
#define VC_OP6 OP_NONE
#endif
#ifndef VC_OP7
#define VC_OP7 OP_NONE
#endif
#ifndef VC_OP8
#define VC_OP8 OP_NONE
#endif
#ifndef VC_OP9
#define VC_OP9 OP_NONE
#endif
#ifndef VC_OP10
#define VC_OP10 OP_NONE
#endif
#ifndef VC_OP11
#define VC_OP11 OP_NONE
#endif
#ifndef VC_OP12
#define VC_OP12 OP_NONE
#endif
#ifndef VC_OP13
#define VC_OP13 OP_NONE
#endif
#ifndef VC_OP14
#define VC_OP14 OP_NONE
#endif
#ifndef VC_OP15
#define VC_OP15 OP_NONE
#endif
#ifndef VC_OP16
#define VC_OP16 OP_NONE
#endif
#ifndef VC_OP17
#define VC_OP17 OP_NONE
#endif
#ifndef VC_OP18
#define VC_OP18 OP_NONE
#endif
#ifndef VC_OP19
#define VC_OP19 OP_NONE
#endif
#ifndef VC_OP20
#define VC_OP20 OP_NONE
#endif
#ifndef VC_OP21
#define VC_OP21 OP_NONE
#endif
#ifndef VC_OP22
#define VC_OP22 OP_NONE
#endif
#ifndef VC_OP23
#define VC_OP23 OP_NONE
#endif
#ifndef VC_MD
#define VC_MD 3
#endif

void h_nav(void)
{
    buf = malloc(VC_N);
    __CPROVER_assume(buf != NULL);
#ifdef VC_DOC
    /* pinned shape: one concrete document (used for the listed known findings, whose shapes are
     * longer than the exhaustive bound) */
    {
        static const uint8_t doc[VC_N] = { VC_DOC };
        for (size_t i = 0; i < VC_N; i++) { buf[i] = doc[i]; }
    }
#endif
#ifdef VC_ALPHA
    /* structural alphabet: every token kind's type byte, small payload bytes */
    for (size_t i = 0; i < VC_N; i++) {
        uint8_t c = buf[i];
        __CPROVER_assume(c == 0x40 || c == 0x41 || c == 0x42 || c == 0x43 || c == 0x44 || c == 0x10 ||
                         c == 0x14 || c == 0x18 || c == 0x00 || c == 0x01 || c == 0x02 || c == 0x61 || c == 0x62);
    }
#endif
    int why;
    __CPROVER_assume(ref_verify(buf, VC_N, VC_ROOT_ARRAY, VC_MD, &why));
    nm[0] = nondet_uchar(); nm[1] = nondet_uchar();
#ifdef VC_NM0
    nm[0] = VC_NM0; nm[1] = VC_NM1;        /* pinned lookup names */
#endif
    for (size_t i = 0; i < VC_N; i++) { vc_wit[i] = buf[i]; }
    binson_state *st = malloc(VC_MD * sizeof(binson_state));
    __CPROVER_assume(st != NULL);
    p.state = st;
    p.max_depth = VC_MD;
#if VC_ROOT_ARRAY
    bool ok = binson_parser_init_array(&p, buf, VC_N);
#else
    bool ok = binson_parser_init_object(&p, buf, VC_N);
#endif
#ifdef VC_NO_LIB
    ok = true;
#endif
    __CPROVER_assert(ok, "init accepts a valid document");                                                                                   /*@ B/nav-init */
    ref_cursor_init(&rc, buf, VC_N, VC_ROOT_ARRAY);
    step(VC_OP0); step(VC_OP1); step(VC_OP2); step(VC_OP3); step(VC_OP4); step(VC_OP5); step(VC_OP6); step(VC_OP7); step(VC_OP8); step(VC_OP9); step(VC_OP10); step(VC_OP11);
    step(VC_OP12); step(VC_OP13); step(VC_OP14); step(VC_OP15); step(VC_OP16); step(VC_OP17); step(VC_OP18); step(VC_OP19); step(VC_OP20); step(VC_OP21); step(VC_OP22); step(VC_OP23);
#if defined(VC_NO_LIB) || defined(VC_DOC)
    __CPROVER_assert(0, "vacuity control: some valid document of this length admits the whole sequence");
#endif
}
