/* E3 (BOUNDED stand-in): binson_parser_to_string and binson_parser_print on ALL byte strings of
 * exactly VC_N bytes (object-rooted unless VC_ROOT_ARRAY) and ALL capacities 0..needed+2, with the
 * destination allocated at exactly `capacity` bytes (one stray byte is an out-of-bounds write for
 * CBMC). snprintf/printf are the fixed-arity stand-ins of stubs/vc_stdio.h (assumed libc contract).
 * Checked: size protocol (C13) and text == reference rendering, print == to_string (C14). */
#include <stdlib.h>
#include <string.h>
#define REF_MAXSTK ((VC_N / 2) + 2)
#define VC_OUTMAX (4 * VC_N + 8)
#include "ref_binson.h"
#include "vc_stdio.h"
#include "binson_parser.c"

size_t vc_k, vc_j, vc_memcmp_idx, vc_cstr_max, vc_strlen_result, vc_memcmp_n;
int vc_memcmp_result; const void *vc_memcmp_a, *vc_memcmp_b;
char vc_stdout[VC_OUTMAX]; size_t vc_stdout_len; size_t vc_len_sum;
uint8_t vc_wit[VC_N];

size_t nondet_size_t(void);
_Bool nondet_bool(void);

#ifndef VC_MD
#define VC_MD 3
#endif

void h_print(void)
{
    uint8_t *buf = malloc(VC_N);
    __CPROVER_assume(buf != NULL);
    for (size_t i = 0; i < VC_N; i++) { vc_wit[i] = buf[i]; }
    int why;
    int valid = ref_verify(buf, VC_N, VC_ROOT_ARRAY, VC_MD, &why);
    char exp[VC_OUTMAX];
    size_t need = valid ? ref_render(buf, VC_N, exp, VC_OUTMAX, vc_fmt_i64, vc_fmt_dbl) : 0;
    __CPROVER_assume(need < VC_OUTMAX);

    binson_parser p;
    binson_state *st = malloc(VC_MD * sizeof(binson_state));
    __CPROVER_assume(st != NULL);
    p.state = st; p.max_depth = VC_MD;
#if VC_ROOT_ARRAY
    binson_parser_init_array(&p, buf, VC_N);
#else
    binson_parser_init_object(&p, buf, VC_N);
#endif

#if VC_MODE == 1
    /* size query with a NULL buffer and a stale *size */
    size_t q = nondet_size_t();
    bool r0 = binson_parser_to_string(&p, NULL, &q, false);
    __CPROVER_assert(!r0, "a NULL buffer never succeeds");                                                          /*@ B/null-query-false */
    __CPROVER_assert(!valid || q == need + 1, "NULL query reports text length + terminator");                       /*@ B/size-exact */
    bool r = valid;
#elif VC_MODE == 2
    /* a buffer of exactly cap bytes, every capacity 0..needed+2 */
    size_t cap = nondet_size_t();
    __CPROVER_assume(cap <= need + 2 && cap <= VC_OUTMAX);
    char *out = malloc(cap);
    __CPROVER_assume(out != NULL);
    size_t sz = cap;
    bool r = binson_parser_to_string(&p, out, &sz, false);
    __CPROVER_assert(valid || !r, "to_string returns false for an invalid document");                               /*@ B/invalid-false */
    if (valid) {
        __CPROVER_assert(r == (cap >= need + 1), "succeeds exactly when the capacity holds text + terminator");      /*@ B/fits-iff */
        __CPROVER_assert(r || sz == need + 1, "on failure *size is the required size, the same for every capacity"); /*@ B/size-exact */
        __CPROVER_assert(!r || sz == need, "on success *size is the text length");                                  /*@ B/size-on-success */
        if (r) {
            size_t g = nondet_size_t();
            __CPROVER_assume(g < need);
            __CPROVER_assert(out[g] == exp[g], "text equals the reference rendering");                              /*@ B/render-equal */
            __CPROVER_assert(out[need] == 0, "text is NUL-terminated");                                             /*@ B/terminated */
        }
    }
#else
    /* print writes the reference rendering to stdout */
    vc_stdout_len = 0;
    bool rp = binson_parser_print(&p);
    __CPROVER_assert(rp == (valid != 0), "print succeeds exactly on valid documents");                              /*@ B/print-iff-valid */
    if (valid) {
        __CPROVER_assert(vc_stdout_len == need, "print emits as many characters as the reference rendering");       /*@ B/print-length */
        size_t g2 = nondet_size_t();
        __CPROVER_assume(g2 < need);
        __CPROVER_assert(vc_stdout[g2] == exp[g2], "print emits the reference rendering byte for byte");            /*@ B/print-equal */
    }
    bool r = valid;
#endif
    if (valid && r) { __CPROVER_assert(0, "vacuity control: a valid document rendered successfully"); }
    if (!valid) { __CPROVER_assert(0, "vacuity control: an invalid document of this length exists"); }
}
