/* E2: the function contract of _advance_parsing, checked on the REAL function body with its
 * loop closed by the in-source loop contract (goto-instrument --apply-loop-contracts, no DFCC:
 * DFCC runs out of memory on this function, DESIGN.md section 2).
 *
 * The pre-state is built here (typed malloc'ed objects), constrained by the same invariant
 * macros the in-source contract uses; then the real function is called and every clause of
 * the contract is asserted. max_depth is the compile-time constant VC_MD of the run; everything
 * else is symbolic: buffer length (<= 2^32) and contents, cursor, depth, every level's flags,
 * names, values, array counters, scan flags, presence/length/contents of the lookup name.
 */
#include <stdlib.h>
#include "vc_libc.h"

int vc_memcmp_e2(const void *a, const void *b, size_t n);
#define memcmp vc_memcmp_e2
#include "binson_parser.c"

_Bool nondet_bool(void);
size_t nondet_size_t(void);
unsigned char nondet_uchar(void);
unsigned short nondet_ushort(void);
int nondet_int(void);
binson_err nondet_err(void);
void *nondet_ptr(void);

size_t vc_k;
int vc_memcmp_result; size_t vc_memcmp_n; const void *vc_memcmp_a, *vc_memcmp_b; size_t vc_strlen_result;

/* memcmp under its C11 7.24.4.1 contract: reads n bytes of each argument (nothing for n == 0,
 * see DESIGN.md section 7 for that assumption), result unconstrained here (the ordering
 * semantics are pinned by the E1 contract of _cmp_name and by the bounded tier) */
int vc_memcmp_e2(const void *a, const void *b, size_t n)
{
    __CPROVER_assert(n == 0 || __CPROVER_r_ok(a, n), "memcmp: first argument readable for n bytes");   /*@ memcmp-a-readable */
    __CPROVER_assert(n == 0 || __CPROVER_r_ok(b, n), "memcmp: second argument readable for n bytes");  /*@ memcmp-b-readable */
    return nondet_int();
}

#ifndef VC_MD
#error "E2 needs -DVC_MD=<max_depth>"
#endif

void h_adv(void)
{
    binson_parser p;
    size_t n = nondet_size_t();
    __CPROVER_assume(n <= VC_MAX_BUF);
    uint8_t *buf = malloc(n);
    __CPROVER_assume(buf != NULL);
    binson_state *st = malloc(VC_MD * sizeof(binson_state));
    __CPROVER_assume(st != NULL);

    p.type = nondet_uchar();
    p.depth = nondet_uchar();
    p.max_depth = VC_MD;
    p.buffer_size = n;
    p.buffer_used = nondet_size_t();
    p.buffer = buf;
    p.error_flags = nondet_err();
    p.state = st;
    p.cb = NULL;
    p.cb_context = nondet_ptr();
    __CPROVER_assume(p.depth <= VC_MD);
    p.current_state = &st[VC_IDX(&p)];

    /* spans are constructed (not assumed through pointer predicates) */
    for (size_t i = 0; i < VC_MD; i++) {
        if (nondet_bool()) {
            st[i].current_name.bptr = NULL;
        } else {
            size_t off = nondet_size_t();
            __CPROVER_assume(off <= n);
            st[i].current_name.bptr = buf + off;
        }
        if (st[i].current_type == BINSON_TYPE_STRING || st[i].current_type == BINSON_TYPE_BYTES) {
            size_t off = nondet_size_t();
            __CPROVER_assume(off <= n);
            st[i].current_value.string_value.bptr = buf + off;
        }
    }
    /* the precondition: class invariant with all VC_MD levels */
    __CPROVER_assume(VC_ADV_POST_INV(&p, VC_EQ_PLAIN, VC_ALL_LEVELS));

    uint8_t scan_flags = nondet_uchar();
    bbuf sn, *scan_name = NULL;
    if (nondet_bool()) {
        sn.bsize = nondet_size_t();
        __CPROVER_assume(sn.bsize <= VC_MAX_NAME);
        sn.bptr = malloc(sn.bsize);
        __CPROVER_assume(sn.bptr != NULL);
        scan_name = &sn;
    }

    /* snapshots */
    binson_err o_err = p.error_flags;
    size_t o_used = p.buffer_used;
    uint_fast8_t o_depth = p.depth;
    binson_state *o_cs = p.current_state;
    uint_fast8_t o_type = p.type;
    size_t g = nondet_size_t();           /* ghost byte index into the input buffer */
    __CPROVER_assume(g < n);
    uint8_t o_byte = (n > 0) ? buf[g] : 0;
    size_t gl = nondet_size_t();          /* ghost level */
    __CPROVER_assume(gl < VC_MD);
    binson_state o_level = st[gl];
    uint_fast8_t o_ad = p.current_state->array_depth;
    binson_state *lv = p.current_state;

    bool ret = _advance_parsing(&p, scan_flags, scan_name);

    __CPROVER_assert(VC_ADV_POST_INV(&p, VC_EQ_PLAIN, VC_ALL_LEVELS), "class invariant, all levels");           /*@ adv-inv */
    __CPROVER_assert(VC_ADV_POST_LATCH(&p, ret, o_err, o_used, o_depth, o_cs), "latched error: nothing moves");  /*@ adv-latch */
    __CPROVER_assert(o_err == BINSON_ERROR_NONE ||
                     (st[gl].flags == o_level.flags && st[gl].current_type == o_level.current_type &&
                      st[gl].array_depth == o_level.array_depth &&
                      st[gl].current_name.bptr == o_level.current_name.bptr &&
                      st[gl].current_name.bsize == o_level.current_name.bsize &&
                      st[gl].current_value.raw.bptr == o_level.current_value.raw.bptr &&
                      st[gl].current_value.raw.bsize == o_level.current_value.raw.bsize),
                     "latched error: state array untouched");                                                   /*@ adv-latch-state */
    __CPROVER_assert(VC_ADV_POST_TRUE_NO_ERROR(&p, ret), "true only without error");                            /*@ adv-true-no-error */
    __CPROVER_assert(VC_ADV_POST_MONOTONE(&p, o_err, o_used), "cursor never moves backwards across a call");    /*@ adv-cursor-monotone */
    __CPROVER_assert(VC_ADV_POST_VERIFY_FALSE(ret, scan_flags), "a VERIFY scan never returns true");            /*@ adv-verify-never-true */
    __CPROVER_assert(VC_ADV_POST_FALSE_SAME_DEPTH(&p, ret, scan_flags, o_err, o_depth),
                     "a next/lookup scan that fails without error is at the depth it started at");                /*@ adv-false-same-depth */
    __CPROVER_assert(VC_ADV_POST_LEAVE_ARRAY(&p, ret, scan_flags, o_depth, o_ad, lv),
                     "a leave_array scan that succeeds has closed exactly the array it started in");             /*@ adv-leave-array-closes-it */
    __CPROVER_assert(VC_ADV_POST_LEAVE_OBJECT(&p, ret, scan_flags, o_depth),
                     "a leave_object scan that succeeds has closed exactly the object it started in");           /*@ adv-leave-object-closes-it */
    __CPROVER_assert(p.type == o_type && p.max_depth == VC_MD && p.buffer == buf && p.buffer_size == n &&
                     p.state == st && p.cb == NULL, "configuration fields unchanged");                          /*@ adv-config-unchanged */
    __CPROVER_assert(n == 0 || buf[g] == o_byte, "input buffer not written");                                   /*@ adv-buffer-unchanged */
    __CPROVER_assert(0, "vacuity control: end of harness reachable");                                           /*@ vacuity */
    if (ret) { __CPROVER_assert(0, "vacuity control: return true reachable"); }                                 /*@ vacuity-true */
    if (o_err == BINSON_ERROR_NONE && !ret) { __CPROVER_assert(0, "vacuity control: return false reachable"); } /*@ vacuity-false */
}
