/* E1 harnesses for the writer (DFCC). Same conventions as h_parser.c: the harness builds the
 * caller objects (writer struct, destination buffer of EXACTLY capacity bytes - capacity symbolic,
 * 0 and NULL included - source data), the instrumentation assumes the in-source requires
 * clauses, checks every write against the assigns clause and asserts the ensures clauses. */
#include <stdlib.h>
#include "vc_libc.h"
#ifdef VC_STUB_STRLEN
#define strlen vc_strlen
#endif
#include "binson_writer.c"

_Bool nondet_bool(void);
size_t nondet_size_t(void);
unsigned char nondet_uchar(void);
int64_t nondet_i64(void);
double nondet_double(void);
binson_type nondet_type(void);

size_t vc_k, vc_j;
int vc_memcmp_result; size_t vc_memcmp_n; const void *vc_memcmp_a, *vc_memcmp_b; size_t vc_strlen_result;

#define H_END()    __CPROVER_assert(0, "vacuity control: harness end reachable under the precondition")

static binson_writer *mk_writer(void)
{
    binson_writer *w = malloc(sizeof(*w));
    __CPROVER_assume(w != NULL);
    if (nondet_bool()) {
        w->buffer = NULL;
    } else {
        __CPROVER_assume(w->buffer_size <= VC_MAX_BUF);
        w->buffer = malloc(w->buffer_size);
        __CPROVER_assume(w->buffer != NULL);
    }
    vc_j = nondet_size_t();
    return w;
}

static bbuf *mk_data(void)
{
    bbuf *d = malloc(sizeof(*d));
    __CPROVER_assume(d != NULL);
    __CPROVER_assume(d->bsize <= VC_MAX_BUF);
    d->bptr = malloc(d->bsize);
    __CPROVER_assume(d->bptr != NULL);
    return d;
}

void h__write(void)
{
    binson_writer *w = mk_writer();
    bbuf *d = mk_data();
    bool r = _write(w, d);
    /* vacuity controls restricted to small pieces: CBMC runs out of memory building the
     * witness trace of a 2^32-byte memmove, and a small witness shows reachability just as well */
    if (d->bsize <= 2) { if (r) { H_END(); } else { H_END(); } }
}

void h__int_pack_size(void)
{
    uint8_t *b = malloc(9);
    __CPROVER_assume(b != NULL);
    _int_pack_size(nondet_i64(), b, nondet_bool());
    H_END();
}

void h__write_token(void)
{
    binson_writer *w = mk_writer();
    binson_value *v = malloc(sizeof(*v));
    __CPROVER_assume(v != NULL);
    binson_type t = nondet_type();
    if (VC_T_SIMPLE(t)) {
        v->raw.bptr = malloc(1);
        __CPROVER_assume(v->raw.bptr != NULL);
    } else if (VC_T_BLOB(t)) {
        __CPROVER_assume(v->bytes_value.bsize <= VC_MAX_BUF);
        v->bytes_value.bptr = malloc(v->bytes_value.bsize);
        __CPROVER_assume(v->bytes_value.bptr != NULL);
    }
    bool r = _write_token(w, v, t);
    if (!VC_T_BLOB(t) || v->bytes_value.bsize <= 2) { if (r) { H_END(); } else { H_END(); } }
}

#define W0_HARNESS(fn)                                             \
void h_##fn(void)                                                  \
{                                                                  \
    binson_writer *w = mk_writer();                                \
    bool r = fn(w);                                                \
    if (r) { H_END(); } else { H_END(); }                          \
}
W0_HARNESS(binson_write_object_begin)
W0_HARNESS(binson_write_object_end)
W0_HARNESS(binson_write_array_begin)
W0_HARNESS(binson_write_array_end)

void h_binson_write_boolean(void)
{
    binson_writer *w = mk_writer();
    bool r = binson_write_boolean(w, nondet_bool());
    if (r) { H_END(); } else { H_END(); }
}
