/* E1 harnesses for the writer (DFCC). Same conventions as h_parser.c: the harness builds the
 * caller objects (writer struct, destination buffer of EXACTLY capacity bytes - capacity symbolic,
 * 0 and NULL included - source data), the instrumentation assumes the in-source requires
 * clauses, checks every write against the assigns clause and asserts the ensures clauses. */
#include <stdlib.h>
#include "vc_libc.h"
#ifdef VC_STUB_STRLEN
#define strlen vc_strlen
#endif
#include "binson_writer.c"

_Bool nondet_bool(void);
size_t nondet_size_t(void);
unsigned char nondet_uchar(void);
int64_t nondet_i64(void);
double nondet_double(void);
binson_type nondet_type(void);

size_t vc_k, vc_j, vc_memcmp_idx, vc_cstr_max;
int64_t vc_wit_i64; int vc_wit_flag; size_t vc_wit_cap, vc_wit_used, vc_wit_len; int vc_wit_err;      /* copies of the inputs for the native replay */
int vc_memcmp_result; size_t vc_memcmp_n; const void *vc_memcmp_a, *vc_memcmp_b; size_t vc_strlen_result;

#define H_END()    __CPROVER_assert(0, "vacuity control: harness end reachable under the precondition")

static binson_writer *mk_writer(void)
{
    binson_writer *w = malloc(sizeof(*w));
    __CPROVER_assume(w != NULL);
    if (nondet_bool()) {
        w->buffer = NULL;
    } else {
        __CPROVER_assume(w->buffer_size <= VC_MAX_BUF);
#ifdef VC_SMALL_WITNESS
        __CPROVER_assume(w->buffer_size <= 64 && w->buffer_used <= 128);     /* fallback run: sizes small enough for a counterexample trace */
#endif
        w->buffer = malloc(w->buffer_size);
        __CPROVER_assume(w->buffer != NULL);
    }
    vc_j = nondet_size_t();
    return w;
}

static bbuf *mk_data(void)
{
    bbuf *d = malloc(sizeof(*d));
    __CPROVER_assume(d != NULL);
    __CPROVER_assume(d->bsize <= VC_MAX_BUF);
#ifdef VC_SMALL_WITNESS
    __CPROVER_assume(d->bsize <= 64);
#endif
    d->bptr = malloc(d->bsize);
    __CPROVER_assume(d->bptr != NULL);
    return d;
}

void h__write(void)
{
    binson_writer *w = mk_writer();
    bbuf *d = mk_data();
    vc_wit_cap = w->buffer_size; vc_wit_used = w->buffer_used; vc_wit_err = w->error_flags; vc_wit_len = d->bsize;
    vc_wit_flag = (w->buffer != NULL);
    bool r = _write(w, d);
    /* vacuity controls restricted to small pieces: CBMC runs out of memory building the
     * witness trace of a 2^32-byte memmove, and a small witness shows reachability just as well */
    if (d->bsize <= 2) { if (r) { H_END(); } else { H_END(); } }
}

void h__int_pack_size(void)
{
    uint8_t *b = malloc(9);
    __CPROVER_assume(b != NULL);
    vc_wit_i64 = nondet_i64(); vc_wit_flag = nondet_bool();
    _int_pack_size(vc_wit_i64, b, vc_wit_flag);
    H_END();
}

void h__write_token(void)
{
    binson_writer *w = mk_writer();
    binson_value *v = malloc(sizeof(*v));
    __CPROVER_assume(v != NULL);
    binson_type t = nondet_type();
    if (VC_T_SIMPLE(t)) {
        v->raw.bptr = malloc(1);
        __CPROVER_assume(v->raw.bptr != NULL);
    } else if (VC_T_BLOB(t)) {
        __CPROVER_assume(v->bytes_value.bsize <= VC_MAX_BUF);
#ifdef VC_SMALL_WITNESS
        __CPROVER_assume(v->bytes_value.bsize <= 64);
#endif
        v->bytes_value.bptr = malloc(v->bytes_value.bsize);
        __CPROVER_assume(v->bytes_value.bptr != NULL);
    }
    bool r = _write_token(w, v, t);
    if (!VC_T_BLOB(t) || v->bytes_value.bsize <= 2) { if (r) { H_END(); } else { H_END(); } }
}

#define W0_HARNESS(fn)                                             \
void h_##fn(void)                                                  \
{                                                                  \
    binson_writer *w = mk_writer();                                \
    bool r = fn(w);                                                \
    if (r) { H_END(); } else { H_END(); }                          \
}
W0_HARNESS(binson_write_object_begin)
W0_HARNESS(binson_write_object_end)
W0_HARNESS(binson_write_array_begin)
W0_HARNESS(binson_write_array_end)

void h_binson_write_boolean(void)
{
    binson_writer *w = mk_writer();
    bool r = binson_write_boolean(w, nondet_bool());
    if (r) { H_END(); } else { H_END(); }
}

void h_binson_writer_init(void)
{
    binson_writer *w = malloc(sizeof(*w));
    __CPROVER_assume(w != NULL);
    size_t n = nondet_size_t();
    uint8_t *b = nondet_bool() ? NULL : malloc(n);
    bool r = binson_writer_init(w, b, n);
    if (r) { H_END(); } else { H_END(); }
}

void h_binson_writer_reset(void)
{
    binson_writer *w = mk_writer();
    bool r = binson_writer_reset(w);
    if (r) { H_END(); } else { H_END(); }
}

void h_binson_writer_get_counter(void)
{
    binson_writer *w = mk_writer();
    binson_writer_get_counter(w);
    H_END();
}

void h_binson_write_integer(void)
{
    binson_writer *w = mk_writer();
    bool r = binson_write_integer(w, nondet_i64());
    if (r) { H_END(); } else { H_END(); }
}

void h_binson_write_double(void)
{
    binson_writer *w = mk_writer();
    union { double d; int64_t i; } u;
    u.d = nondet_double();
    size_t o_used = w->buffer_used;
    bool r = binson_write_double(w, u.d);
    /* the 8 payload bytes are the IEEE-754 image of the argument, little-endian (bit identity
     * cannot be written with == on doubles in the contract: NaN payloads, -0.0) */
    if (r && vc_j >= 1 && vc_j < 9) {
        __CPROVER_assert(w->buffer[o_used + vc_j] == VC_LE_BYTE(u.i, vc_j - 1),
                         "write_double stores the 8 IEEE-754 bytes little-endian");    /*@ double-8-bytes-le */
    }
    if (r) { H_END(); } else { H_END(); }
}

#ifdef VC_SMALL_WITNESS
#define VC_WIT_LEN_OK(len) ((len) <= 64)
#else
#define VC_WIT_LEN_OK(len) (1)
#endif
#define BLOB_HARNESS(fn, T)                                        \
void h_##fn(void)                                                  \
{                                                                  \
    binson_writer *w = mk_writer();                                \
    size_t len = nondet_size_t();                                  \
    __CPROVER_assume(len <= 2147483647);                           \
    __CPROVER_assume(VC_WIT_LEN_OK(len));                          \
    T *p = malloc(len);                                            \
    __CPROVER_assume(p != NULL);                                   \
    bool r = fn(w, p, len);                                        \
    if (len <= 2) { if (r) { H_END(); } else { H_END(); } }        \
}
BLOB_HARNESS(binson_write_string_with_len, char)
BLOB_HARNESS(binson_write_bytes, uint8_t)
BLOB_HARNESS(binson_write_raw, uint8_t)

/* In-place use: the source of a write may lie inside the writer's own buffer (e.g. shifting a serialized
 * message to make room for a header with binson_write_raw). The library copies with memmove, so this is
 * defined behaviour; a copy primitive with an overlap restriction (memcpy) is not. Plain CBMC run on the
 * real _write: CBMC's library model of memcpy asserts that source and destination do not overlap. */
void h__write_overlap(void)
{
    binson_writer *w = malloc(sizeof(*w));
    __CPROVER_assume(w != NULL);
    w->buffer_size = 8;                       /* constant capacity: CBMC's array theory does not finish on a symbolic one */
    w->buffer = malloc(8);
    __CPROVER_assume(w->buffer != NULL);
    __CPROVER_assume(w->buffer_used <= w->buffer_size);
    bbuf d;
    size_t off = nondet_size_t();
    __CPROVER_assume(off < w->buffer_size);
    d.bptr = w->buffer + off;
    d.bsize = nondet_size_t();
    __CPROVER_assume(d.bsize <= w->buffer_size - off);
    size_t o_used = w->buffer_used;
    uint8_t g = nondet_uchar();
    uint8_t o_src = (g < d.bsize) ? d.bptr[g] : 0;
    bool r = _write(w, &d);
    __CPROVER_assert(w->buffer_used == o_used + d.bsize, "counter exact for an overlapping source");                 /*@ overlap-counter-exact */
    __CPROVER_assert(!(r && g < d.bsize) || w->buffer[o_used + g] == o_src,
                     "an overlapping source is copied as if through a temporary (memmove semantics)");            /*@ overlap-copy-defined */
    if (r) { __CPROVER_assert(0, "vacuity control: an in-place write that fits exists"); }
}
