/* E1 harnesses for the writer functions that call into the parser (DFCC): both library sources are
 * included so that the contracts of the parser functions are visible for --replace-call-with-contract. */
#include <stdlib.h>
#include "vc_libc.h"
#ifdef VC_STUB_STRLEN
#define strlen vc_strlen
#endif
#include "binson_parser.c"
#include "binson_writer.c"

_Bool nondet_bool(void);
size_t nondet_size_t(void);
unsigned char nondet_uchar(void);

size_t vc_k, vc_j, vc_memcmp_idx, vc_cstr_max, vc_strlen_result, vc_memcmp_n;
int vc_memcmp_result; const void *vc_memcmp_a, *vc_memcmp_b;

#define H_END()    __CPROVER_assert(0, "vacuity control: harness end reachable under the precondition")

static binson_writer *mk_writer(void)
{
    binson_writer *w = malloc(sizeof(*w));
    __CPROVER_assume(w != NULL);
    if (nondet_bool()) {
        w->buffer = NULL;
    } else {
        __CPROVER_assume(w->buffer_size <= VC_MAX_BUF);
        w->buffer = malloc(w->buffer_size);
        __CPROVER_assume(w->buffer != NULL);
    }
    vc_j = nondet_size_t();
    return w;
}

static binson_parser *mk_parser_nav(void)
{
    binson_parser *p = malloc(sizeof(*p));
    __CPROVER_assume(p != NULL);
    size_t n = nondet_size_t();
    __CPROVER_assume(n <= VC_MAX_BUF);
    uint8_t *buf = malloc(n);
    __CPROVER_assume(buf != NULL);
#ifdef VC_H_MD
    uint_fast8_t md = VC_H_MD;
    binson_state *st = malloc(VC_H_MD * sizeof(binson_state));
#else
    uint_fast8_t md = nondet_uchar();
    __CPROVER_assume(md >= 1);
    binson_state *st = malloc((size_t) md * sizeof(binson_state));
#endif
    __CPROVER_assume(st != NULL);
    p->max_depth = md; p->state = st; p->buffer = buf; p->buffer_size = n;
    __CPROVER_assume(p->depth <= p->max_depth);
    p->current_state = &p->state[VC_IDX(p)];
    binson_state *s = p->current_state;
    if (nondet_bool()) { s->current_name.bptr = NULL; } else { size_t off = nondet_size_t(); __CPROVER_assume(off <= n); s->current_name.bptr = buf + off; }
    if (s->current_type == BINSON_TYPE_STRING || s->current_type == BINSON_TYPE_BYTES) {
        size_t off = nondet_size_t(); __CPROVER_assume(off <= n); s->current_value.string_value.bptr = buf + off;
    }
    return p;
}

void h_binson_write_name(void)
{
    binson_writer *w = mk_writer();
    size_t len = nondet_size_t();
    __CPROVER_assume(len <= VC_MAX_NAME);
    char *s = malloc(len + 1);
    __CPROVER_assume(s != NULL);
    s[len] = 0;
    vc_cstr_max = len;
    bool r = binson_write_name(w, s);
    if (len <= 2) { if (r) { H_END(); } else { H_END(); } }
}

void h_binson_parser_to_writer(void)
{
    binson_parser *p = mk_parser_nav();
    binson_writer *w = mk_writer();
    bool r = binson_parser_to_writer(p, w);
    if (r) { H_END(); } else { H_END(); }
}

void h_binson_writer_verify(void)
{
    binson_writer *w = mk_writer();
    bool r = binson_writer_verify(w);
    if (r) { H_END(); } else { H_END(); }
}
