/* E1 harnesses: one entry point per parser function under contract (DFCC).
 *
 * The real source is #included, so static functions are in scope and the verified text is
 * exactly the code in the repository's working tree. Each harness builds the caller objects
 * (parser struct, state array of exactly max_depth entries, input buffer of exactly
 * buffer_size bytes, all separate heap blocks, contents unconstrained), then calls the
 * function; goto-instrument --dfcc --enforce-contract assumes the in-source requires clauses,
 * checks every write against the assigns clause and asserts the ensures clauses.
 * max_depth (1..255), buffer_size (0..2^32), cursor, depth, flags, ... are all symbolic.
 */
#include <stdlib.h>
#include "vc_libc.h"
#ifdef VC_STUB_MEMSET
#define memset vc_memset
#endif
#ifdef VC_STUB_MEMCMP
#define memcmp vc_memcmp
#endif
#ifdef VC_STUB_STRLEN
#define strlen vc_strlen
#endif
#include "binson_parser.c"

_Bool nondet_bool(void);
size_t nondet_size_t(void);
unsigned char nondet_uchar(void);
int nondet_int(void);
binson_type nondet_type(void);

size_t vc_k, vc_j, vc_memcmp_idx, vc_cstr_max;  /* ghost indices, left nondeterministic */
int vc_memcmp_result; size_t vc_memcmp_n; const void *vc_memcmp_a, *vc_memcmp_b; size_t vc_strlen_result;

#define H_END()    __CPROVER_assert(0, "vacuity control: harness end reachable under the precondition")

/* a span inside buf (or NULL when allow_null) */
static const uint8_t *mk_span_ptr(const uint8_t *buf, size_t n, _Bool allow_null)
{
    if (allow_null && nondet_bool()) {
        return NULL;
    }
    size_t off = nondet_size_t();
    __CPROVER_assume(off <= n);
    return buf + off;
}

static void mk_level(binson_state *s, const uint8_t *buf, size_t n)
{
    s->current_name.bptr = mk_span_ptr(buf, n, 1);
    if (s->current_type == BINSON_TYPE_STRING || s->current_type == BINSON_TYPE_BYTES) {
        s->current_value.string_value.bptr = mk_span_ptr(buf, n, 0);
    }
}

/* caller objects with unconstrained contents; the function's requires clause (assumed by the
 * instrumentation) then restricts them to the class invariant */
static binson_parser *mk_parser(void)
{
    binson_parser *p = malloc(sizeof(*p));
    __CPROVER_assume(p != NULL);
    size_t n = nondet_size_t();
    __CPROVER_assume(n <= VC_MAX_BUF);
    uint8_t *buf = malloc(n);
    __CPROVER_assume(buf != NULL);
#ifdef VC_H_MD
    uint_fast8_t md = VC_H_MD;
    binson_state *st = malloc(VC_H_MD * sizeof(binson_state));
#else
    uint_fast8_t md = nondet_uchar();
    __CPROVER_assume(md >= 1);
    binson_state *st = malloc((size_t) md * sizeof(binson_state));
#endif
    __CPROVER_assume(st != NULL);
    p->max_depth = md;
    p->state = st;
    p->buffer = buf;
    p->buffer_size = n;
    vc_k = nondet_size_t();
    return p;
}

/* additionally: current_state points at the level in use and the spans held by that level
 * and by the ghost level are constructed as pointers into the buffer */
static binson_parser *mk_parser_nav(void)
{
    binson_parser *p = mk_parser();
    __CPROVER_assume(p->depth <= p->max_depth);
    p->current_state = &p->state[VC_IDX(p)];
    mk_level(p->current_state, p->buffer, p->buffer_size);
    return p;
}

/*---------------------------------------------------------------------------*/

void h__check_boundary(void)
{
    size_t a = nondet_size_t(), b = nondet_size_t(), m = nondet_size_t();
    _check_boundary(a, b, m);
    H_END();
}

void h__consume(void)
{
    binson_parser *parser = mk_parser();
    bbuf *data = malloc(sizeof(*data));
    __CPROVER_assume(data != NULL);
    size_t size = nondet_size_t(); _Bool peek = nondet_bool();
    bool r = _consume(parser, data, size, peek);
    if (r) { H_END(); } else { H_END(); }
}

/* copies of the inputs, so that a counterexample trace shows them (used by the native replay) */
uint8_t vc_wit_a[8], vc_wit_b[8]; size_t vc_wit_an, vc_wit_bn; int vc_wit_flag;

void h__parse_integer(void)
{
    bbuf *d = malloc(sizeof(*d)); int64_t *v = malloc(sizeof(*v)); _Bool c = nondet_bool();
    __CPROVER_assume(d != NULL && v != NULL);
    __CPROVER_assume(d->bsize >= 1 && d->bsize <= 8);
    d->bptr = malloc(d->bsize);
    __CPROVER_assume(d->bptr != NULL);
    vc_wit_an = d->bsize; vc_wit_flag = c;
    for (size_t i = 0; i < 8; i++) { vc_wit_a[i] = (i < d->bsize) ? d->bptr[i] : 0; }
    bool r = _parse_integer(d, v, c);
    if (r) { H_END(); } else { H_END(); }
}

void h_binson_parser_reset(void)
{
    binson_parser *parser = mk_parser();
    bool r = binson_parser_reset(parser);
    if (r) { H_END(); } else { H_END(); }
}

void h__binson_parser_init(void)
{
    binson_parser *parser = mk_parser();
    const uint8_t *buffer = parser->buffer; size_t n = parser->buffer_size; uint8_t type = nondet_uchar();
    parser->buffer = NULL; parser->buffer_size = nondet_size_t();      /* init overwrites both */
    bool r = _binson_parser_init(parser, buffer, n, type);
    if (r) { H_END(); } else { H_END(); }
}

void h_binson_parser_init_object(void)
{
    binson_parser *parser = mk_parser();
    const uint8_t *buffer = parser->buffer; size_t n = parser->buffer_size;
    parser->buffer = NULL; parser->buffer_size = nondet_size_t();
    bool r = binson_parser_init_object(parser, buffer, n);
    if (r) { H_END(); } else { H_END(); }
}

void h_binson_parser_init_array(void)
{
    binson_parser *parser = mk_parser();
    const uint8_t *buffer = parser->buffer; size_t n = parser->buffer_size;
    parser->buffer = NULL; parser->buffer_size = nondet_size_t();
    bool r = binson_parser_init_array(parser, buffer, n);
    if (r) { H_END(); } else { H_END(); }
}

void h_binson_parser_verify(void)
{
    binson_parser *parser = mk_parser();
    bool r = binson_parser_verify(parser);
    if (r) { H_END(); } else { H_END(); }
}

#define NAV_HARNESS(fn)                                            \
void h_##fn(void)                                                  \
{                                                                  \
    binson_parser *parser = mk_parser_nav();                       \
    bool r = fn(parser);                                           \
    if (r) { H_END(); } else { H_END(); }                          \
}
NAV_HARNESS(binson_parser_next)
NAV_HARNESS(binson_parser_go_into_object)
NAV_HARNESS(binson_parser_go_into_array)
NAV_HARNESS(binson_parser_leave_object)
NAV_HARNESS(binson_parser_leave_array)

void h_binson_parser_next_ensure(void)
{
    binson_parser *parser = mk_parser_nav(); binson_type t = nondet_type();
    bool r = binson_parser_next_ensure(parser, t);
    if (r) { H_END(); } else { H_END(); }
}

void h_binson_parser_get_depth(void)
{
    binson_parser *parser = mk_parser();
    binson_parser_get_depth(parser);
    H_END();
}

#define GET_HARNESS(fn)                                            \
void h_##fn(void)                                                  \
{                                                                  \
    binson_parser *parser = mk_parser_nav();                       \
    fn(parser);                                                    \
    H_END();                                                       \
}
GET_HARNESS(binson_parser_get_type)
GET_HARNESS(binson_parser_get_name)
GET_HARNESS(binson_parser_get_string_bbuf)
GET_HARNESS(binson_parser_get_bytes_bbuf)
GET_HARNESS(binson_parser_get_integer)
GET_HARNESS(binson_parser_get_boolean)

void h_binson_parser_get_double(void)
{
    binson_parser *parser = mk_parser_nav();
    double r = binson_parser_get_double(parser);
    /* bit identity (NaN payloads, -0.0) cannot be written with == in the contract: compare the 8-byte images */
    if (parser->error_flags == BINSON_ERROR_NONE && parser->current_state->current_type == BINSON_TYPE_DOUBLE) {
        union { double d; int64_t i; } u;
        u.d = r;
        __CPROVER_assert(u.i == parser->current_state->current_value.integer_value,
                         "get_double returns the stored 8 bytes bit for bit");    /*@ double-bits */
    }
    H_END();
}

static bbuf *mk_bbuf(size_t maxlen)
{
    bbuf *d = malloc(sizeof(*d));
    __CPROVER_assume(d != NULL);
    __CPROVER_assume(d->bsize <= maxlen);
    d->bptr = malloc(d->bsize);
    __CPROVER_assume(d->bptr != NULL);
    return d;
}

void h__cmp_name(void)
{
#ifdef VC_SMALL_WITNESS
    bbuf *a = mk_bbuf(8), *b = mk_bbuf(8);          /* search for a counterexample small enough to replay natively */
#else
    bbuf *a = mk_bbuf(VC_MAX_NAME), *b = mk_bbuf(VC_MAX_NAME);
#endif
    vc_j = nondet_size_t();
    vc_wit_an = a->bsize; vc_wit_bn = b->bsize;
    for (size_t i = 0; i < 8; i++) { vc_wit_a[i] = (i < a->bsize) ? a->bptr[i] : 0; vc_wit_b[i] = (i < b->bsize) ? b->bptr[i] : 0; }
    int r = _cmp_name(a, b);
    if (r < 0) { H_END(); } else if (r == 0) { H_END(); } else { H_END(); }
}

void h__process_one(void)
{
    binson_parser *parser = mk_parser();
    bbuf *consumed = malloc(sizeof(*consumed));
    size_t *bc = malloc(sizeof(*bc));
    __CPROVER_assume(consumed != NULL && bc != NULL);
    __CPROVER_assume(parser->buffer_used < parser->buffer_size);
    consumed->bptr = parser->buffer + parser->buffer_used;
    uint16_t r = _process_one(parser, consumed, bc);
    if (r == BINSON_STATE_ERROR) { H_END(); } else { H_END(); }
}

/* a readable name of the given length (not NUL-terminated) */
static const char *mk_name(size_t len)
{
    char *p = malloc(len);
    __CPROVER_assume(p != NULL);
    return p;
}

/* a valid C string of length <= INT32_MAX */
static const char *mk_cstr(void)
{
    size_t len = nondet_size_t();
    __CPROVER_assume(len <= VC_MAX_NAME);
    char *p = malloc(len + 1);
    __CPROVER_assume(p != NULL);
    p[len] = 0;
    vc_cstr_max = len;
    return p;
}

void h_binson_parser_field_with_length(void)
{
    binson_parser *parser = mk_parser_nav();
    size_t len = nondet_size_t();
    __CPROVER_assume(len <= VC_MAX_NAME);
    bool r = binson_parser_field_with_length(parser, mk_name(len), len);
    if (r) { H_END(); } else { H_END(); }
}

void h_binson_parser_field(void)
{
    binson_parser *parser = mk_parser_nav();
    bool r = binson_parser_field(parser, mk_cstr());
    if (r) { H_END(); } else { H_END(); }
}

void h_binson_parser_field_ensure(void)
{
    binson_parser *parser = mk_parser_nav();
    bool r = binson_parser_field_ensure(parser, mk_cstr(), nondet_type());
    if (r) { H_END(); } else { H_END(); }
}

void h_binson_parser_field_ensure_with_length(void)
{
    binson_parser *parser = mk_parser_nav();
    size_t len = nondet_size_t();
    __CPROVER_assume(len <= VC_MAX_NAME);
    bool r = binson_parser_field_ensure_with_length(parser, mk_name(len), len, nondet_type());
    if (r) { H_END(); } else { H_END(); }
}

void h_binson_parser_get_raw(void)
{
    binson_parser *parser = mk_parser_nav();
    bbuf *raw = malloc(sizeof(*raw));
    __CPROVER_assume(raw != NULL);
    bool r = binson_parser_get_raw(parser, raw);
    if (r) { H_END(); } else { H_END(); }
}

void h_binson_parser_string_equals(void)
{
    binson_parser *parser = mk_parser_nav();
    vc_j = nondet_size_t();
    bool r = binson_parser_string_equals(parser, mk_cstr());
    if (r) { H_END(); } else { H_END(); }
}

/* BOUNDED companion of the _cmp_name contract: both names at most 8 bytes, CBMC's own memcmp model
 * (no stand-in), result compared with the bytewise definition written out here. Gives replayable
 * counterexamples; the unbounded statement is the contract above. */
void h__cmp_name_direct(void)
{
    bbuf *a = mk_bbuf(8), *b = mk_bbuf(8);
    vc_wit_an = a->bsize; vc_wit_bn = b->bsize;
    for (size_t i = 0; i < 8; i++) { vc_wit_a[i] = (i < a->bsize) ? a->bptr[i] : 0; vc_wit_b[i] = (i < b->bsize) ? b->bptr[i] : 0; }
    int r = _cmp_name(a, b);
    int e = 0;
    size_t m = (a->bsize < b->bsize) ? a->bsize : b->bsize;
    for (size_t i = 0; i < m && e == 0; i++) {
        if (a->bptr[i] != b->bptr[i]) { e = (a->bptr[i] < b->bptr[i]) ? -1 : 1; }
    }
    if (e == 0) { e = (a->bsize < b->bsize) ? -1 : (a->bsize > b->bsize) ? 1 : 0; }
    __CPROVER_assert((r < 0) == (e < 0) && (r == 0) == (e == 0),
                     "names compare bytewise as unsigned bytes over their full length, shorter first on a tie");   /*@ B/cmp-bytewise */
    __CPROVER_assert(0, "vacuity control: harness end reachable");
}
