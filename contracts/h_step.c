/* Step contracts of _advance_parsing: the REAL function is run from a symbolic pre-state of a given
 * shape in which the token loop performs a statically known number of iterations (1 or 2), so
 * --unwind 3 with unwinding assertions is a COMPLETE proof for that shape (not a bounded stand-in):
 * buffer length, contents, cursor, level contents are all symbolic.
 *   VC_SCEN 1  go_into_array on a pending '[' : array nesting limit (255 accepted, 256th rejected with MAX_DEPTH_ARRAY)
 *   VC_SCEN 2  go_into_object on a pending '{': object nesting limit (max_depth levels; MAX_DEPTH_OBJECT beyond)
 *   VC_SCEN 3  next inside an object on "name scalar": decodes exactly what the bytes encode (oracle: spec/ref_binson.h)
 *   VC_SCEN 4  lookup that overshoots: cursor back at the first byte of the overshooting name, nothing else moved
 *   VC_SCEN 5  field-name order: a name that is not strictly greater (bytewise, shorter first) than the previous one is FORMAT
 *   VC_SCEN 7  lookup that first skips a pending empty container and then overshoots: the cursor rests behind the
 *              container, at the first byte of the name (a failed lookup re-reads at most the one name it overshot)
 *   VC_SCEN 8  binson_parser_field_with_length (REAL function, real loop) on an object whose next tokens are
 *              "name scalar END": true iff the name has exactly the looked-up bytes (embedded 0x00 and bytes >= 0x80
 *              included, full length); a smaller name is passed, a larger one is not consumed
 *   VC_SCEN 6  a malformed token is rejected whatever the scan is (next, enter, leave, verify): skipping validates like entering
 */
#include <stdlib.h>
#define REF_MAXSTK 4
#include "ref_binson.h"
#include "binson_parser.c"

_Bool nondet_bool(void);
size_t nondet_size_t(void);
unsigned char nondet_uchar(void);

size_t vc_k, vc_j, vc_memcmp_idx, vc_cstr_max, vc_strlen_result, vc_memcmp_n;
int vc_memcmp_result; const void *vc_memcmp_a, *vc_memcmp_b;

#ifdef VC_STEP_MD
#define MD VC_STEP_MD
#else
#define MD 3
#endif
#ifndef VC_STEP8_NAME
#define VC_STEP8_NAME 2      /* names of 0..2 bytes: prefix / extension / embedded NUL / >= 0x80 cases all occur */
#endif
#ifndef VC_STEP_MAXBUF
#define VC_STEP_MAXBUF 64          /* the tokens of the step lie in the first bytes behind the cursor */
#endif

void h_step(void)
{
    binson_parser p;
    size_t n = nondet_size_t();
    __CPROVER_assume(n >= 1 && n <= VC_STEP_MAXBUF);
    uint8_t *buf = malloc(n);
#ifdef VC_STEP_MD_SYM
    /* symbolic max_depth 1..255 with a state array of exactly that many entries; depth at the two deepest levels */
    uint_fast8_t md_sym = nondet_uchar();
    __CPROVER_assume(md_sym >= 1);
#undef MD
#define MD md_sym
#endif
#ifdef VC_STEP_MD
    /* max_depth at the limit of the 8-bit depth counter: a state array of exactly 255 entries as a static object
     * (all levels zero except the level in use, which is made unconstrained below) - a heap block of 255 unconstrained
     * entries does not fit in memory */
    static binson_state st_static[VC_STEP_MD];
    binson_state *st = st_static;
    __CPROVER_assume(buf != NULL);
#else
    binson_state *st = malloc((size_t) MD * sizeof(binson_state));
    __CPROVER_assume(buf != NULL && st != NULL);
#endif
    p.type = nondet_bool() ? BINSON_PTYPE_OBJECT : BINSON_PTYPE_ARRAY;
    p.max_depth = MD; p.buffer = buf; p.buffer_size = n; p.state = st; p.cb = NULL; p.cb_context = NULL;
    p.error_flags = BINSON_ERROR_NONE;
    p.depth = nondet_uchar();
    __CPROVER_assume(p.depth >= 1 && p.depth <= MD);
#if defined(VC_STEP_MD) || defined(VC_STEP_MD_SYM)
    __CPROVER_assume(p.depth >= MD - 1);        /* the two deepest levels only: the boundary of the 8-bit depth counter */
#endif
    p.current_state = &st[p.depth - 1];
    p.buffer_used = nondet_size_t();
    __CPROVER_assume(p.buffer_used < n);
    binson_state *lv = p.current_state;
#ifdef VC_STEP_MD
    { binson_state any; *lv = any; }          /* the level in use: unconstrained */
#endif
    size_t o_used = p.buffer_used;
    uint_fast8_t o_depth = p.depth;

#if VC_SCEN == 1
    __CPROVER_assume((lv->flags == BINSON_STATE_IN_ARRAY_1 || lv->flags == BINSON_STATE_IN_ARRAY_2) && lv->array_depth >= 1);
    __CPROVER_assume(buf[o_used] == BINSON_DEF_ARRAY_BEGIN);
    uint_fast8_t o_ad = lv->array_depth;
    bool r = _advance_parsing(&p, BINSON_ADVANCE_ENTER_ARRAY, NULL);
    __CPROVER_assert(o_ad == UINT8_MAX || (r && lv->array_depth == o_ad + 1 && p.buffer_used == o_used + 1 &&
                                            p.error_flags == BINSON_ERROR_NONE),
                     "up to 255 arrays may be nested in each other");                                           /*@ array-nesting-255-accepted */
    __CPROVER_assert(o_ad != UINT8_MAX || (!r && p.error_flags == BINSON_ERROR_MAX_DEPTH_ARRAY),
                     "the 256th directly nested array is rejected with MAX_DEPTH_ARRAY");                       /*@ depth-array-code */
#elif VC_SCEN == 2
    __CPROVER_assume((lv->flags == BINSON_STATE_IN_OBJ_EXPECTING_VALUE) ||
                     ((lv->flags == BINSON_STATE_IN_ARRAY_1 || lv->flags == BINSON_STATE_IN_ARRAY_2) && lv->array_depth >= 1));
    __CPROVER_assume(buf[o_used] == BINSON_DEF_OBJECT_BEGIN);
    bool r = _advance_parsing(&p, BINSON_ADVANCE_ENTER_OBJECT, NULL);
    __CPROVER_assert(o_depth == MD || (r && p.depth == o_depth + 1 && p.current_state == &st[o_depth] &&
                                       p.buffer_used == o_used + 1 && p.error_flags == BINSON_ERROR_NONE &&
                                       st[o_depth].flags == BINSON_STATE_IN_OBJ_EXPECTING_FIELD),
                     "an object may be entered while fewer than max_depth levels are in use");                  /*@ object-nesting-accepted */
    __CPROVER_assert(o_depth != MD || (!r && p.error_flags == BINSON_ERROR_MAX_DEPTH_OBJECT && p.depth == MD),
                     "nesting beyond max_depth is rejected with MAX_DEPTH_OBJECT and the depth does not move");  /*@ depth-object-code */
#elif VC_SCEN == 3
    __CPROVER_assume(lv->flags == BINSON_STATE_IN_OBJ_EXPECTING_FIELD && lv->current_name.bptr == NULL && lv->array_depth == 0);
    ref_token nt = ref_scan(buf, n, o_used);
    __CPROVER_assume(nt.kind == RT_STRING);
    ref_token vt = ref_scan(buf, n, o_used + nt.len);
    __CPROVER_assume(vt.kind == RT_BOOL || vt.kind == RT_INT || vt.kind == RT_DOUBLE || vt.kind == RT_STRING || vt.kind == RT_BYTES);
    bool r = _advance_parsing(&p, BINSON_ADVANCE_VALUE, NULL);
    __CPROVER_assert(r && p.error_flags == BINSON_ERROR_NONE && p.depth == o_depth && p.current_state == lv,
                     "next on 'name scalar' succeeds at the same level");                                       /*@ next-scalar-step */
    __CPROVER_assert(p.buffer_used == o_used + nt.len + vt.len, "cursor advances by exactly the two tokens");   /*@ step-cursor-exact */
    __CPROVER_assert(lv->current_name.bptr == buf + nt.pay_off && lv->current_name.bsize == nt.pay_len,
                     "the name is the exact sub-span that holds it");                                           /*@ span-exact-name */
    __CPROVER_assert(lv->flags == BINSON_STATE_IN_OBJ_EXPECTING_FIELD, "a field is expected next");             /*@ alternation */
    if (vt.kind == RT_INT) {
        __CPROVER_assert(lv->current_type == BINSON_TYPE_INTEGER && lv->current_value.integer_value == vt.ival,
                         "integers of all four widths are sign-extended to the encoded value");                 /*@ int-sext */
    } else if (vt.kind == RT_BOOL) {
        __CPROVER_assert(lv->current_type == BINSON_TYPE_BOOLEAN && lv->current_value.bool_value == (vt.ival != 0), "booleans exact"); /*@ bool-exact */
    } else if (vt.kind == RT_DOUBLE) {
        uint64_t le = 0;
        for (int i = 0; i < 8; i++) { le |= ((uint64_t) buf[vt.pay_off + i]) << (8 * i); }
        __CPROVER_assert(lv->current_type == BINSON_TYPE_DOUBLE && (uint64_t) lv->current_value.integer_value == le,
                         "doubles are bit-identical to the 8 payload bytes");                                   /*@ double-bits */
    } else {
        __CPROVER_assert(lv->current_type == ((vt.kind == RT_STRING) ? BINSON_TYPE_STRING : BINSON_TYPE_BYTES) &&
                         lv->current_value.string_value.bptr == buf + vt.pay_off &&
                         lv->current_value.string_value.bsize == vt.pay_len,
                         "string/bytes values are the exact sub-span that holds them");                         /*@ span-exact-value */
    }
#elif VC_SCEN == 4
    __CPROVER_assume(lv->flags == BINSON_STATE_IN_OBJ_EXPECTING_FIELD && lv->array_depth == 0);
    const uint8_t *o_nptr = lv->current_name.bptr; size_t o_nsize = lv->current_name.bsize;
    __CPROVER_assume(o_nptr == NULL);                      /* first field of the object: no ordering constraint */
    ref_token nt = ref_scan(buf, n, o_used);
    __CPROVER_assume(nt.kind == RT_STRING);
    bbuf sn; sn.bsize = nondet_size_t();
    __CPROVER_assume(sn.bsize <= 4);
    uint8_t *snb = malloc(sn.bsize);
    __CPROVER_assume(snb != NULL);
    sn.bptr = snb;
    __CPROVER_assume(ref_cmp(buf + nt.pay_off, nt.pay_len, snb, sn.bsize) > 0);     /* the field's name is larger: overshoot */
    bool r = _advance_parsing(&p, BINSON_ADVANCE_VALUE, &sn);
    __CPROVER_assert(!r && p.error_flags == BINSON_ERROR_NONE, "an overshooting lookup fails without an error");               /*@ overshoot-false-no-error */
    __CPROVER_assert(p.buffer_used == o_used, "the cursor is back at the first byte of the name it overshot");                /*@ rewind-exact */
    __CPROVER_assert(p.depth == o_depth && p.current_state == lv && lv->flags == BINSON_STATE_IN_OBJ_EXPECTING_FIELD &&
                     lv->current_name.bptr == o_nptr && lv->current_name.bsize == o_nsize,
                     "nothing else at the level moved: a field is expected, the previous name is kept");                      /*@ rewind-state-restored */
#elif VC_SCEN == 5
    __CPROVER_assume(lv->flags == BINSON_STATE_IN_OBJ_EXPECTING_FIELD && lv->array_depth == 0);
    /* a previous field name of 0..4 bytes somewhere in the buffer (an EMPTY previous name is a name too) */
    size_t poff = nondet_size_t(), plen = nondet_size_t();
    __CPROVER_assume(plen <= 4 && poff <= n && plen <= n - poff);
    lv->current_name.bptr = buf + poff; lv->current_name.bsize = plen;
    ref_token nt = ref_scan(buf, n, o_used);
    __CPROVER_assume(nt.kind == RT_STRING && nt.pay_len <= 4);
    ref_token vt = ref_scan(buf, n, o_used + nt.len);
    __CPROVER_assume(vt.kind == RT_BOOL || vt.kind == RT_INT);
    int ord = ref_cmp(buf + poff, plen, buf + nt.pay_off, nt.pay_len);
    bool r = _advance_parsing(&p, BINSON_ADVANCE_VALUE, NULL);
    __CPROVER_assert(ord < 0 || (!r && p.error_flags == BINSON_ERROR_FORMAT),
                     "a field name that does not sort strictly after the previous one is rejected with FORMAT");             /*@ order-strict */
    __CPROVER_assert(ord >= 0 || (r && p.error_flags == BINSON_ERROR_NONE && lv->current_name.bptr == buf + nt.pay_off &&
                                  lv->current_name.bsize == nt.pay_len),
                     "a strictly greater field name is accepted and becomes the previous name");                             /*@ order-accepts-ascending */
#elif VC_SCEN == 6
    __CPROVER_assume(lv->flags == BINSON_STATE_IN_OBJ_EXPECTING_VALUE ||
                     ((lv->flags == BINSON_STATE_IN_ARRAY_1 || lv->flags == BINSON_STATE_IN_ARRAY_2) && lv->array_depth >= 1));
    ref_token t = ref_scan(buf, n, o_used);
    __CPROVER_assume(t.kind == RT_ERR);                    /* malformed value token: bad width, bad length, truncated, unknown byte */
    uint8_t sf = nondet_uchar();
    __CPROVER_assume(sf == BINSON_ADVANCE_VERIFY || sf == BINSON_ADVANCE_VALUE || sf == BINSON_ADVANCE_LEAVE_OBJECT ||
                     sf == BINSON_ADVANCE_LEAVE_ARRAY || sf == BINSON_ADVANCE_ENTER_OBJECT || sf == BINSON_ADVANCE_ENTER_ARRAY);
    bool r = _advance_parsing(&p, sf, NULL);
    __CPROVER_assert(!r && p.error_flags == ((t.why == RW_RANGE) ? BINSON_ERROR_RANGE : BINSON_ERROR_FORMAT),
                     "a malformed token is rejected with the same code whatever the scan flags are");                        /*@ rule-independent-of-scan-flags */
#elif VC_SCEN == 7
    __CPROVER_assume(lv->flags == BINSON_STATE_IN_OBJ_EXPECTING_VALUE && lv->array_depth == 0 && o_depth < MD);
    __CPROVER_assume(p.type == BINSON_PTYPE_OBJECT || p.depth > 1);      /* level 0 of an array-rooted parser is never an object level (class invariant) */
    __CPROVER_assume(lv->current_name.bptr == NULL);
    __CPROVER_assume(o_used + 2 < n);
    __CPROVER_assume((buf[o_used] == 0x40 && buf[o_used + 1] == 0x41) || (buf[o_used] == 0x42 && buf[o_used + 1] == 0x43));
    ref_token nt = ref_scan(buf, n, o_used + 2);
    __CPROVER_assume(nt.kind == RT_STRING);
    bbuf sn; sn.bsize = nondet_size_t();
    __CPROVER_assume(sn.bsize <= 4);
    uint8_t *snb = malloc(sn.bsize);
    __CPROVER_assume(snb != NULL);
    sn.bptr = snb;
    __CPROVER_assume(ref_cmp(buf + nt.pay_off, nt.pay_len, snb, sn.bsize) > 0);
    bool r = _advance_parsing(&p, BINSON_ADVANCE_VALUE, &sn);
    __CPROVER_assert(!r && p.error_flags == BINSON_ERROR_NONE, "an overshooting lookup fails without an error");               /*@ overshoot-false-no-error */
    __CPROVER_assert(p.buffer_used == o_used + 2,
                     "the skipped container stays skipped: the cursor is at the first byte of the name it overshot");        /*@ rewind-bounded */
    __CPROVER_assert(p.depth == o_depth && p.current_state == lv && lv->flags == BINSON_STATE_IN_OBJ_EXPECTING_FIELD,
                     "a field is expected next at the same level");                                                           /*@ rewind-state-restored */
#elif VC_SCEN == 8
    __CPROVER_assume(lv->flags == BINSON_STATE_IN_OBJ_EXPECTING_FIELD && lv->array_depth == 0 && lv->current_name.bptr == NULL);
    __CPROVER_assume(p.type == BINSON_PTYPE_OBJECT || p.depth > 1);
    ref_token nt = ref_scan(buf, n, o_used);
    __CPROVER_assume(nt.kind == RT_STRING && nt.pay_len <= VC_STEP8_NAME);
    ref_token vt = ref_scan(buf, n, o_used + nt.len);
    __CPROVER_assume(vt.kind == RT_BOOL);
    size_t endpos = o_used + nt.len + vt.len;
    __CPROVER_assume(endpos < n && buf[endpos] == 0x41);                 /* the object ends behind this one field */
    size_t ql = nondet_size_t();
    __CPROVER_assume(ql <= VC_STEP8_NAME);
    char *q = malloc(ql);
    __CPROVER_assume(q != NULL);
    int ord = ref_cmp(buf + nt.pay_off, nt.pay_len, (const uint8_t *) q, ql);
    bool r = binson_parser_field_with_length(&p, q, ql);
    __CPROVER_assert(r == (ord == 0), "a lookup succeeds exactly when a field has the looked-up bytes over their full length");   /*@ lookup-iff-present */
    __CPROVER_assert(p.error_flags == BINSON_ERROR_NONE && p.depth == o_depth, "no error, same level");                              /*@ lookup-no-error */
    __CPROVER_assert(ord != 0 || (lv->current_name.bptr == buf + nt.pay_off && lv->current_name.bsize == nt.pay_len &&
                                  p.buffer_used == endpos), "on a hit the getters refer to that field");                          /*@ lookup-hit-positions */
    __CPROVER_assert(ord <= 0 || p.buffer_used == o_used, "a field with a larger name is not consumed by a failed lookup");           /*@ lookup-miss-keeps-later-fields */
    __CPROVER_assert(ord >= 0 || p.buffer_used == endpos, "a failed lookup moves only past fields with smaller names (here: to the END)"); /*@ lookup-miss-passes-smaller */
#endif
    __CPROVER_assert(0, "vacuity control: step harness end reachable");
}
