/* E1 harnesses for the two print callbacks (DFCC), with the abstract snprintf/printf stand-ins of
 * stubs/vc_stdio_abs.h (assumed libc contract). Symbolic: token kind (all ten), capacity
 * (0 / NULL included, up to 2^32), bytes used so far, separator state, token payload lengths. */
#include <stdlib.h>
#include "vc_libc.h"
#include "vc_stdio_abs.h"
#include "binson_parser.c"

_Bool nondet_bool(void);
size_t nondet_size_t(void);
unsigned short nondet_ushort(void);

size_t vc_k, vc_j, vc_memcmp_idx, vc_cstr_max, vc_strlen_result, vc_memcmp_n, vc_len_sum, vc_prf_events;
int vc_memcmp_result; const void *vc_memcmp_a, *vc_memcmp_b;

#define H_END()    __CPROVER_assert(0, "vacuity control: harness end reachable under the precondition")

static binson_parser *mk_cb_parser(uint16_t ns, size_t maxlen)
{
    binson_parser *p = malloc(sizeof(*p));
    binson_state *st = malloc(sizeof(*st));
    __CPROVER_assume(p != NULL && st != NULL);
    p->current_state = st;
    if (ns == BINSON_STATE_PARSED_FIELD_NAME) {
        __CPROVER_assume(st->current_name.bsize <= maxlen);
        st->current_name.bptr = malloc(st->current_name.bsize);
        __CPROVER_assume(st->current_name.bptr != NULL);
    }
    if (ns == BINSON_STATE_PARSED_STRING || ns == BINSON_STATE_PARSED_BYTES) {
        __CPROVER_assume(st->current_value.string_value.bsize <= maxlen);
        st->current_value.string_value.bptr = malloc(st->current_value.string_value.bsize);
        __CPROVER_assume(st->current_value.string_value.bptr != NULL);
    }
    return p;
}

void h__binson_to_string_cb(void)
{
    uint16_t ns = nondet_ushort();
    binson_parser *p = mk_cb_parser(ns, VC_MAX_BUF);
    struct _to_string_ctx *ctx = malloc(sizeof(*ctx));
    __CPROVER_assume(ctx != NULL);
    if (nondet_bool()) {
        ctx->buffer = NULL;
    } else {
        __CPROVER_assume(ctx->buffer_size <= VC_MAX_BUF);
        ctx->buffer = malloc(ctx->buffer_size);
        __CPROVER_assume(ctx->buffer != NULL);
    }
    _binson_to_string_cb(p, ns, ctx);
    H_END();
}

void h__binson_print_cb(void)
{
    uint16_t ns = nondet_ushort();
    binson_parser *p = mk_cb_parser(ns, VC_MAX_BUF);
    uint8_t *pstate = malloc(1);
    __CPROVER_assume(pstate != NULL);
    _binson_print_cb(p, ns, pstate);
    H_END();
}
