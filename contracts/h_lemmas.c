/* Round-trip lemmas between the REAL encoder (_int_pack_size) and the REAL decoder (_parse_integer),
 * for all 2^64 values / all byte patterns. Both loops are bounded by the operand width (<= 8), so
 * plain CBMC with --unwind 9 and unwinding assertions is a complete proof, not a bounded stand-in. */
#include <stdlib.h>
#include "binson_parser.c"
#include "binson_writer.c"

size_t vc_k, vc_j, vc_memcmp_idx, vc_cstr_max, vc_strlen_result, vc_memcmp_n;
int vc_memcmp_result; const void *vc_memcmp_a, *vc_memcmp_b;

int64_t nondet_i64(void);
unsigned char nondet_uchar(void);

/* parse(pack(v)) == v, accepted as shortest form, for every int64 */
void h_lemma_parse_pack(void)
{
    int64_t v = nondet_i64();
    uint8_t pk[9];
    pk[0] = BINSON_DEF_INT8;
    uint8_t sz = _int_pack_size(v, pk, false);
    bbuf d; d.bptr = &pk[1]; d.bsize = (size_t) sz - 1;
    int64_t back = 0;
    bool ok = _parse_integer(&d, &back, true);
    __CPROVER_assert(ok, "the width chosen by the writer is the shortest form the parser insists on");      /*@ parse-pack-minimal */
    __CPROVER_assert(back == v, "parse(pack(v)) == v for every int64");                                     /*@ parse-pack-id */
    __CPROVER_assert(pk[0] == BINSON_DEF_INT8 + ((sz == 2) ? 0 : (sz == 3) ? 1 : (sz == 5) ? 2 : 3) &&
                     (1U << (pk[0] & 3U)) == (unsigned) (sz - 1),
                     "type byte announces the width the parser will read");                                 /*@ type-byte-width */
    __CPROVER_assert(0, "vacuity control: lemma harness end reachable");
}

/* pack(parse(b)) == b for every shortest-form encoding b */
void h_lemma_pack_parse(void)
{
    uint8_t w = nondet_uchar();
    __CPROVER_assume(w == 1 || w == 2 || w == 4 || w == 8);
    uint8_t in[8];
    bbuf d; d.bptr = in; d.bsize = w;
    int64_t v = 0;
    bool ok = _parse_integer(&d, &v, true);
    __CPROVER_assume(ok);                                   /* b is a shortest-form encoding */
    uint8_t pk[9];
    pk[0] = BINSON_DEF_INT8;
    uint8_t sz = _int_pack_size(v, pk, false);
    __CPROVER_assert(sz == w + 1, "the writer re-encodes a decoded value in the width it was read in");     /*@ pack-parse-width */
    uint8_t g = nondet_uchar();
    __CPROVER_assume(g < w);
    __CPROVER_assert(pk[1 + g] == in[g], "pack(parse(b)) == b byte for byte");                              /*@ pack-parse-id */
    __CPROVER_assert(0, "vacuity control: lemma harness end reachable");
}

/* doubles: the 8 payload bytes survive decode + encode bit for bit */
void h_lemma_double(void)
{
    uint8_t in[8];
    bbuf d; d.bptr = in; d.bsize = 8;
    binson_value val;
    bool ok = _parse_integer(&d, (int64_t *) &val.double_value, false);
    __CPROVER_assert(ok, "an 8-byte payload is accepted as a double");                                      /*@ double-accepted */
    uint8_t pk[9];
    pk[0] = BINSON_DEF_DOUBLE;
    uint8_t sz = _int_pack_size(val.integer_value, pk, true);
    uint8_t g = nondet_uchar();
    __CPROVER_assume(g < 8);
    __CPROVER_assert(sz == 9 && pk[0] == BINSON_DEF_DOUBLE && pk[1 + g] == in[g],
                     "double payload is bit-identical after decode + encode");                              /*@ double-roundtrip */
    __CPROVER_assert(0, "vacuity control: lemma harness end reachable");
}
