/* binson_parser_to_string: the wrapper around verify-in-print-mode, checked on the REAL function
 * with binson_parser_verify replaced (by macro, no source edit) by a summary of "verify with the
 * to_string callback installed": it ASSERTS that the wrapper has installed the callback and a
 * context that satisfies the callback's precondition (that is what makes the per-token contract of
 * _binson_to_string_cb applicable), then abstracts all callbacks by their proved post-condition
 * (buffer_used grows by the sum of the would-be lengths - capacity independent - and
 * buffer_full <=> buffer_used + 1 > buffer_size once anything was emitted), and returns an
 * arbitrary verdict. Loop-free: plain CBMC is a complete proof under that summary.
 * ASSUMPTION (listed in the evidence): the summary itself - it follows from the callback contract
 * (E1) by induction over the tokens of the document, which is a paper step. */
#include <stdlib.h>
#include "vc_libc.h"
#include "binson_parser.h"

/* calls of binson_parser_verify that follow the library's own #include <stdio.h> (i.e. the ones in
 * binson_parser_print / binson_parser_to_string) are redirected by stubs/shim_tostring/stdio.h */
#define VC_SHIM_REDIRECT_VERIFY 1
static bool vc_verify_dispatch(binson_parser *parser);
#include "binson_parser.c"
#undef binson_parser_verify

_Bool nondet_bool(void);
size_t nondet_size_t(void);

size_t vc_k, vc_j, vc_memcmp_idx, vc_cstr_max, vc_strlen_result, vc_memcmp_n, vc_len_sum, vc_prf_events;
int vc_memcmp_result; const void *vc_memcmp_a, *vc_memcmp_b;

static size_t g_total;         /* ghost: text length of the document (capacity independent) */
static int g_valid;            /* ghost: verdict of verify */
static char *g_buf; static size_t g_cap;

/* the summary of verify-in-print-mode */
static int g_print_mode;       /* 1: the wrapper under test is binson_parser_print */
static bool vc_verify_dispatch(binson_parser *parser)
{
    if (g_print_mode) {
        /* summary of verify with the print callback installed: the wrapper must have installed _binson_print_cb and a
         * live one-byte state that starts at 0 (the pre-condition of the callback's contract); the callbacks only
         * change that byte (their proved frame) */
        __CPROVER_assert(parser->cb == _binson_print_cb, "print installs its callback before verify");                /*@ print-callback-installed */
        uint8_t *ps = (uint8_t *) parser->cb_context;
        __CPROVER_assert(__CPROVER_rw_ok(ps, 1), "the print state is a live object");                                 /*@ print-ctx-live */
        __CPROVER_assert(*ps == 0, "the print state starts at 0");                                                    /*@ print-ctx-initial */
        *ps = (uint8_t) nondet_size_t();
        return g_valid != 0;
    }
    __CPROVER_assert(parser->cb == _binson_to_string_cb, "to_string installs its callback before verify");            /*@ callback-installed */
    struct _to_string_ctx *ctx = (struct _to_string_ctx *) parser->cb_context;
    __CPROVER_assert(__CPROVER_rw_ok(ctx, sizeof(*ctx)), "the callback context is a live object");                    /*@ ctx-live */
    __CPROVER_assert(ctx->buffer == g_buf, "the context points at the caller's buffer");                               /*@ ctx-buffer */
    __CPROVER_assert((ctx->buffer == NULL) ? (ctx->buffer_size == 0) : (ctx->buffer_size == g_cap),
                     "NULL buffer => capacity treated as 0; otherwise the capacity is the caller's *size");            /*@ null-is-zero-capacity */
    __CPROVER_assert(ctx->buffer_used == 0 && !ctx->buffer_full && ctx->pstate == 0, "context starts empty");         /*@ ctx-initial */
    /* all callbacks, abstracted by the proved per-token contract (used-is-sum, full-iff) */
    ctx->buffer_used = g_valid ? g_total : nondet_size_t();
    ctx->buffer_full = (ctx->buffer_used > 0) && (ctx->buffer_used + 1 > ctx->buffer_size);
    if (g_valid) { __CPROVER_assume(ctx->buffer_used >= 2); }      /* a valid document renders at least "{}" */
    return g_valid != 0;
}

void h_binson_parser_to_string(void)
{
    binson_parser *p = malloc(sizeof(*p));
    __CPROVER_assume(p != NULL);
    size_t *size = malloc(sizeof(*size));
    __CPROVER_assume(size != NULL);
    g_valid = nondet_bool();
    g_total = nondet_size_t();
    __CPROVER_assume(g_total <= ((size_t) 1 << 40));
    size_t cap = *size;
    __CPROVER_assume(cap <= VC_MAX_BUF);
    g_buf = nondet_bool() ? NULL : malloc(cap);
    g_cap = cap;
    bool r = binson_parser_to_string(p, g_buf, size, nondet_bool());
    __CPROVER_assert(p->cb == NULL && p->cb_context == NULL, "callback and context are removed again");               /*@ callback-removed */
    __CPROVER_assert(g_valid || !r, "false for an invalid document");                                                  /*@ invalid-false */
    if (g_valid) {
        size_t eff = (g_buf == NULL) ? 0 : cap;
        __CPROVER_assert(r == (eff >= g_total + 1), "true exactly when the capacity holds text + terminator");         /*@ fits-iff */
        __CPROVER_assert(r || *size == g_total + 1, "on failure *size is the required size (text + terminator), the same for every capacity"); /*@ size-exact */
        __CPROVER_assert(!r || *size == g_total, "on success *size is the text length");                               /*@ size-on-success */
        __CPROVER_assert(g_buf != NULL || !r, "a NULL buffer never succeeds");                                         /*@ null-query-false */
    }
    if (r) { __CPROVER_assert(0, "vacuity control: success reachable"); }
    if (!r) { __CPROVER_assert(0, "vacuity control: failure reachable"); }
}

/* binson_parser_print: the other wrapper around verify-in-print-mode. Nothing of the print run stays behind in the
 * parser object (callback and context removed on every path), the verdict is verify's. */
void h_binson_parser_print(void)
{
    binson_parser *p = malloc(sizeof(*p));
    __CPROVER_assume(p != NULL);
    g_valid = nondet_bool();
    g_print_mode = 1;
    bool r = binson_parser_print(p);
    __CPROVER_assert(p->cb == NULL && p->cb_context == NULL, "callback and context are removed again");               /*@ callback-removed */
    __CPROVER_assert(r == (g_valid != 0), "print answers what verify answers");                                        /*@ print-verdict */
    if (r) { __CPROVER_assert(0, "vacuity control: success reachable"); }
    if (!r) { __CPROVER_assert(0, "vacuity control: failure reachable"); }
}
