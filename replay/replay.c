/* Native replay driver: re-executes a counterexample found by CBMC against the REAL code
 * (the repository sources are #included, so static functions are callable), built with
 * clang -fsanitize=address,undefined, with every caller object in an exactly-sized heap block.
 * The oracle is the executable specification spec/ref_binson.h (or the byte-level definition
 * for the leaf functions). Exit 0: the real code behaves as specified on this input.
 * Exit 1: violation reproduced (mismatch printed) - a sanitizer abort also ends non-zero.
 *
 * usage: replay <scenario-file>      scenario = lines "key value..."
 */
#include <stdio.h>
#include <stdlib.h>
#include <string.h>
#include <inttypes.h>
#define REF_MAXSTK 600
#include "ref_binson.h"
#include "binson_parser.c"
#include "binson_writer.c"

static int bad;
#define FAIL(...) do { printf("MISMATCH: "); printf(__VA_ARGS__); printf("\n"); bad = 1; } while (0)

static size_t hex2bin(const char *h, uint8_t **out)
{
    size_t n = strlen(h) / 2;
    uint8_t *b = malloc(n ? n : 1);
    for (size_t i = 0; i < n; i++) { unsigned v; sscanf(h + 2 * i, "%2x", &v); b[i] = (uint8_t) v; }
    *out = b;
    return n;
}

static uint8_t *exact(const uint8_t *src, size_t n)   /* exactly-sized heap copy (ASan red zones on both sides) */
{
    uint8_t *p = malloc(n);                              /* malloc(0) is a valid 0-byte block */
    if (n) { memcpy(p, src, n); }
    return p;
}

static binson_type ref_type(int k)
{
    return (k == RT_OBJ_BEGIN) ? BINSON_TYPE_OBJECT : (k == RT_ARR_BEGIN) ? BINSON_TYPE_ARRAY :
           (k == RT_BOOL) ? BINSON_TYPE_BOOLEAN : (k == RT_INT) ? BINSON_TYPE_INTEGER :
           (k == RT_DOUBLE) ? BINSON_TYPE_DOUBLE : (k == RT_STRING) ? BINSON_TYPE_STRING :
           (k == RT_BYTES) ? BINSON_TYPE_BYTES : BINSON_TYPE_NONE;
}

/* scenario fields */
static char kind[64] = "", root[16] = "object", calls[256] = "", bufhex[1 << 16] = "", ahex[4096] = "", bhex[4096] = "";
static unsigned max_depth = 3, prefill = 0xAB, check_flag = 1, is_double = 0;
static long long ivalue = 0;
static unsigned long capacity = 0;
static char ops[64][4200]; static int nops;

static binson_parser *mk_parser(const uint8_t *buf, size_t n, int arr, bool *ok)
{
    binson_parser *p = malloc(sizeof(*p));
    memset(p, (int) prefill, sizeof(*p));
    binson_state *st = malloc(max_depth * sizeof(binson_state));
    memset(st, (int) prefill, max_depth * sizeof(binson_state));
    p->state = st; p->max_depth = (uint_fast8_t) max_depth;
    *ok = arr ? binson_parser_init_array(p, buf, n) : binson_parser_init_object(p, buf, n);
    return p;
}

static void run_verify(void)
{
    uint8_t *raw; size_t n = hex2bin(bufhex, &raw);
    uint8_t *buf = exact(raw, n);
    int arr = !strcmp(root, "array"); bool ok;
    binson_parser *p = mk_parser(buf, n, arr, &ok);
    bool v = binson_parser_verify(p);
    int why; int r = ref_verify(buf, n, arr, max_depth, &why);
    printf("verify=%d error=%d ref=%d why=%d\n", v, p->error_flags, r, why);
    if (v != (r != 0)) FAIL("verify returned %d, the specification says %d", v, r);
    if (!r && why == RW_DEPTH_OBJECT && p->error_flags != BINSON_ERROR_MAX_DEPTH_OBJECT) FAIL("expected MAX_DEPTH_OBJECT, error is %d", p->error_flags);
    if (!r && why == RW_DEPTH_ARRAY && p->error_flags != BINSON_ERROR_MAX_DEPTH_ARRAY) FAIL("expected MAX_DEPTH_ARRAY, error is %d", p->error_flags);
    if (v && (p->error_flags != BINSON_ERROR_NONE || p->buffer_used != 0)) FAIL("successful verify did not leave a clean start");
    if (!v && p->error_flags == BINSON_ERROR_NONE) FAIL("failed verify left no error code");
}

static void compare_current(binson_parser *p, ref_cursor *rc, const uint8_t *buf)
{
    if (binson_parser_get_type(p) != ref_type(rc->cur.kind)) FAIL("get_type %d, reference %d", binson_parser_get_type(p), ref_type(rc->cur.kind));
    if (rc->has_name) {
        bbuf *nb = binson_parser_get_name(p);
        if (!nb || nb->bptr != buf + rc->name_off || nb->bsize != rc->name_len) FAIL("get_name is not the span of the field name");
    }
    if (rc->cur.kind == RT_INT && binson_parser_get_integer(p) != rc->cur.ival)
        FAIL("get_integer %" PRId64 ", encoded %" PRId64, binson_parser_get_integer(p), rc->cur.ival);
    if (rc->cur.kind == RT_BOOL && binson_parser_get_boolean(p) != (rc->cur.ival != 0)) FAIL("get_boolean differs");
    if (rc->cur.kind == RT_STRING) {
        bbuf *s = binson_parser_get_string_bbuf(p);
        if (!s || s->bptr != buf + rc->cur.pay_off || s->bsize != rc->cur.pay_len) FAIL("get_string_bbuf is not the span of the string");
    }
    if (rc->cur.kind == RT_BYTES) {
        bbuf *s = binson_parser_get_bytes_bbuf(p);
        if (!s || s->bptr != buf + rc->cur.pay_off || s->bsize != rc->cur.pay_len) FAIL("get_bytes_bbuf is not the span of the bytes");
    }
    if (rc->cur.kind == RT_DOUBLE) {
        double d = binson_parser_get_double(p); uint64_t u, le = 0;
        memcpy(&u, &d, 8);
        for (int i = 0; i < 8; i++) le |= ((uint64_t) buf[rc->cur.pay_off + i]) << (8 * i);
        if (u != le) FAIL("get_double is not bit-identical to the payload");
    }
}

/* call sequence against the parser and the reference cursor. Letters as in the bounded tier:
 * E enter root, N next, O/A go_into_object/array, o/a leave_object/array, R get_raw, F/G/H lookups */
static void run_parser_seq(void)
{
    uint8_t *raw; size_t n = hex2bin(bufhex, &raw);
    uint8_t *buf = exact(raw, n);
    int arr = !strcmp(root, "array"); bool ok;
    uint8_t *na; size_t nal = hex2bin(ahex, &na); uint8_t *nb; size_t nbl = hex2bin(bhex, &nb);
    uint8_t *nab = malloc(nal + nbl + 1); memcpy(nab, na, nal); memcpy(nab + nal, nb, nbl);
    binson_parser *p = mk_parser(buf, n, arr, &ok);
    int why; int valid = ref_verify(buf, n, arr, max_depth, &why);
    printf("init=%d ref_valid=%d\n", ok, valid);
    if (!valid) { printf("document is not valid: the cursor oracle does not apply; memory safety only\n"); }
    if (valid && !ok) FAIL("init rejected a valid document");
    ref_cursor rc; ref_cursor_init(&rc, buf, n, arr);
    for (const char *c = calls; *c; c++) {
        bool rl = false; int rr = 0; int cmp = valid;   /* the known-finding hazard is NOT masked in a replay */
        if (*c == ' ') continue;
        switch (*c) {
        case 'E': rl = arr ? binson_parser_go_into_array(p) : binson_parser_go_into_object(p); if (cmp) rr = ref_enter(&rc); break;
        case 'N': rl = binson_parser_next(p); if (cmp) rr = ref_next(&rc); break;
        case 'O': rl = binson_parser_go_into_object(p); if (cmp) rr = ref_enter(&rc); break;
        case 'A': rl = binson_parser_go_into_array(p); if (cmp) rr = ref_enter(&rc); break;
        case 'o': rl = binson_parser_leave_object(p); if (cmp) rr = ref_leave(&rc); break;
        case 'a': rl = binson_parser_leave_array(p); if (cmp) rr = ref_leave(&rc); break;
        case 'R': { bbuf r; size_t off = 0, len = 0; rl = binson_parser_get_raw(p, &r); if (cmp) { rr = ref_raw(&rc, &off, &len);
                    if (rl && (r.bptr != buf + off || r.bsize != len)) FAIL("get_raw span differs from BEGIN..matching END"); } break; }
        case 'F': rl = binson_parser_field_with_length(p, (const char *) na, nal); if (cmp) rr = ref_field(&rc, na, nal); break;
        case 'G': rl = binson_parser_field_with_length(p, (const char *) nb, nbl); if (cmp) rr = ref_field(&rc, nb, nbl); break;
        case 'H': rl = binson_parser_field_with_length(p, (const char *) nab, nal + nbl); if (cmp) rr = ref_field(&rc, nab, nal + nbl); break;
        case 'V': rl = binson_parser_verify(p); rr = valid; if (cmp) ref_cursor_init(&rc, buf, n, arr); break;
        case 'D': (void) binson_parser_get_depth(p); continue;
        default: printf("unknown call %c\n", *c); exit(2);
        }
        printf("call %c -> %d (reference %d) depth=%zu err=%d\n", *c, rl, rr, binson_parser_get_depth(p), p->error_flags);
        if (cmp) {
            if (rl != (rr != 0)) FAIL("call %c returned %d, reference cursor %d", *c, rl, rr);
            if (p->error_flags != BINSON_ERROR_NONE) FAIL("call %c raised error %d on a protocol-following sequence", *c, p->error_flags);
            if (binson_parser_get_depth(p) != ref_depth(&rc)) FAIL("get_depth %zu, reference %zu", binson_parser_get_depth(p), ref_depth(&rc));
            if (rr && (*c == 'N' || *c == 'F' || *c == 'G' || *c == 'H')) compare_current(p, &rc, buf);
        }
    }
}

static void run_parse_integer(void)
{
    uint8_t *raw; size_t n = hex2bin(bufhex, &raw);
    uint8_t *b = exact(raw, n);
    bbuf d; d.bptr = b; d.bsize = n;
    int64_t v = 0; bool r = _parse_integer(&d, &v, check_flag != 0);
    int64_t e = ref_sext(b, n);
    printf("_parse_integer width=%zu check=%u -> %d value=%" PRId64 " expected=%" PRId64 "\n", n, check_flag, r, v, e);
    if (v != e) FAIL("decoded value differs from the two's complement little-endian value");
    bool er = check_flag ? ((n == 1 || n == 2 || n == 4 || n == 8) && ref_minimal(e, n)) : (n == 8);
    if (r != er) FAIL("returned %d, expected %d (shortest-form rule)", r, er);
}

static void run_int_pack(void)
{
    uint8_t *b = malloc(9); memset(b, 0, 9); b[0] = 0x10;
    uint8_t r = _int_pack_size((int64_t) ivalue, b, is_double != 0);
    int64_t v = (int64_t) ivalue;
    unsigned w = is_double ? 8 : (v >= -128 && v <= 127) ? 1 : (v >= -32768 && v <= 32767) ? 2 : (v >= -2147483648LL && v <= 2147483647LL) ? 4 : 8;
    printf("_int_pack_size(%lld,%u) -> %u type byte %02x\n", ivalue, is_double, r, b[0]);
    if (r != 1 + w) FAIL("size %u, canonical %u", r, 1 + w);
    unsigned lg = (w == 1) ? 0 : (w == 2) ? 1 : (w == 4) ? 2 : 3;
    if (!is_double && b[0] != 0x10 + lg) FAIL("type byte %02x, canonical %02x", b[0], 0x10 + lg);
    for (unsigned i = 0; i < w && i + 1 < 9; i++) if (b[1 + i] != (uint8_t) (((uint64_t) v) >> (8 * i))) FAIL("byte %u is not little-endian two's complement", i);
}

static void run_cmp_name(void)
{
    uint8_t *ra, *rb; size_t al = hex2bin(ahex, &ra), bl = hex2bin(bhex, &rb);
    uint8_t *a = exact(ra, al), *b = exact(rb, bl);
    bbuf x = { al, a }, y = { bl, b };
    int r = _cmp_name(&x, &y), e = ref_cmp(a, al, b, bl);
    printf("_cmp_name -> %d, bytewise order %d\n", r, e);
    if ((r < 0) != (e < 0) || (r == 0) != (e == 0)) FAIL("sign %d differs from bytewise unsigned order %d", r, e);
}

/* writer call sequence vs an independent encoder; destination is exactly `capacity` bytes */
static void run_write_seq(void)
{
    uint8_t *dst = malloc(capacity); uint8_t *exp = malloc(capacity + 1 << 4); size_t cap2 = (capacity + 1) << 4;
    memset(dst, 0xEE, capacity);
    static uint8_t full[1 << 20]; size_t flen = 0; size_t stored = 0; int err = 0;
    binson_writer w; memset(&w, (int) prefill, sizeof w);
    binson_writer_init(&w, dst, capacity);
    (void) exp; (void) cap2;
    for (int i = 0; i < nops; i++) {
        char op = ops[i][0]; const char *arg = ops[i] + 2; size_t before = flen; bool r = false;
        uint8_t *pay; size_t pl;
        switch (op) {
        case '{': full[flen++] = 0x40; r = binson_write_object_begin(&w); break;
        case '}': full[flen++] = 0x41; r = binson_write_object_end(&w); break;
        case '[': full[flen++] = 0x42; r = binson_write_array_begin(&w); break;
        case ']': full[flen++] = 0x43; r = binson_write_array_end(&w); break;
        case 't': full[flen++] = 0x44; r = binson_write_boolean(&w, true); break;
        case 'f': full[flen++] = 0x45; r = binson_write_boolean(&w, false); break;
        case 'i': { long long v = atoll(arg); unsigned wd = (v >= -128 && v <= 127) ? 1 : (v >= -32768 && v <= 32767) ? 2 : (v >= -2147483648LL && v <= 2147483647LL) ? 4 : 8;
                    full[flen++] = (uint8_t) (0x10 + (wd == 1 ? 0 : wd == 2 ? 1 : wd == 4 ? 2 : 3));
                    for (unsigned k = 0; k < wd; k++) full[flen++] = (uint8_t) (((uint64_t) v) >> (8 * k));
                    r = binson_write_integer(&w, v); break; }
        case 's': case 'b': { pl = hex2bin(arg, &pay); unsigned wd = (pl <= 127) ? 1 : (pl <= 32767) ? 2 : 4;
                    full[flen++] = (uint8_t) ((op == 's' ? 0x14 : 0x18) + (wd == 1 ? 0 : wd == 2 ? 1 : 2));
                    for (unsigned k = 0; k < wd; k++) full[flen++] = (uint8_t) (pl >> (8 * k));
                    memcpy(full + flen, pay, pl); flen += pl;
                    uint8_t *src = exact(pay, pl);
                    r = (op == 's') ? binson_write_string_with_len(&w, (const char *) src, pl) : binson_write_bytes(&w, src, pl); break; }
        default: printf("unknown op %c\n", op); exit(2);
        }
        /* piece-wise prefix rule: pieces are (descriptor, payload) */
        if (!err) { if (flen <= capacity) stored = flen; else err = 1; }
        (void) before;
        printf("op %s -> %d counter=%zu err=%d\n", ops[i], r, binson_writer_get_counter(&w), w.error_flags);
        if (binson_writer_get_counter(&w) != flen) FAIL("counter %zu, exact encoded size %zu", binson_writer_get_counter(&w), flen);
        if ((w.error_flags == BINSON_ERROR_RANGE) != (flen > capacity)) FAIL("RANGE %d but size %zu vs capacity %lu", w.error_flags == BINSON_ERROR_RANGE, flen, capacity);
        if (r != (w.error_flags == BINSON_ERROR_NONE)) FAIL("return value %d with error %d", r, w.error_flags);
    }
    size_t m = (flen <= capacity) ? flen : capacity;
    if (flen <= capacity && memcmp(dst, full, flen)) FAIL("bytes written differ from the canonical encoding");
    (void) stored; (void) m;
}

/* one _write on a writer in a given state (the counterexample of the _write contract, replayed) */
static unsigned long w_used, w_len; static int w_err, w_has_buffer = 1;
static void run_write_piece(void)
{
    binson_writer w;
    uint8_t *dst = w_has_buffer ? malloc(capacity) : NULL;
    if (dst && capacity) memset(dst, 0xEE, capacity);
    w.buffer = dst; w.buffer_size = capacity; w.buffer_used = w_used; w.error_flags = (binson_err) w_err;
    uint8_t *src = malloc(w_len);
    for (unsigned long i = 0; i < w_len; i++) src[i] = (uint8_t) (0x30 + i % 10);
    bbuf d; d.bptr = src; d.bsize = w_len;
    bool r = _write(&w, &d);
    int fits = (w_used + w_len >= w_used) && (w_used + w_len <= capacity);
    printf("_write(cap=%lu used=%lu err=%d len=%lu buffer=%s) -> %d counter=%zu err=%d\n", capacity, w_used, w_err, w_len, dst ? "yes" : "NULL", r, w.buffer_used, w.error_flags);
    if (w.buffer_used != w_used + w_len) FAIL("counter %zu, expected %lu", w.buffer_used, w_used + w_len);
    int exp_err = !dst ? BINSON_ERROR_NULL : (fits ? w_err : BINSON_ERROR_RANGE);
    if ((int) w.error_flags != exp_err) FAIL("error %d, expected %d", w.error_flags, exp_err);
    if (r != (w.error_flags == BINSON_ERROR_NONE)) FAIL("returned %d with error %d", r, w.error_flags);
    if (dst) for (unsigned long i = 0; i < capacity; i++) {
        int in_piece = (w.error_flags == BINSON_ERROR_NONE) && i >= w_used && i - w_used < w_len;
        if (in_piece && dst[i] != src[i - w_used]) FAIL("byte %lu is not the payload byte", i);
        if (!in_piece && dst[i] != 0xEE) FAIL("byte %lu outside the piece (or after an error) was modified", i);
    }
}

int main(int argc, char **argv)
{
    if (argc < 2) { return 2; }
    FILE *f = fopen(argv[1], "r");
    if (!f) { return 2; }
    static char line[1 << 17];
    while (fgets(line, sizeof line, f)) {
        char k[64], v[1 << 16]; v[0] = 0;
        if (sscanf(line, "%63s %65535[^\n]", k, v) < 1) continue;
        if (!strcmp(k, "kind")) strcpy(kind, v);
        else if (!strcmp(k, "root")) strcpy(root, v);
        else if (!strcmp(k, "max_depth")) max_depth = (unsigned) atoi(v);
        else if (!strcmp(k, "prefill")) prefill = (unsigned) strtoul(v, 0, 16);
        else if (!strcmp(k, "buffer")) strcpy(bufhex, v);
        else if (!strcmp(k, "calls")) strcpy(calls, v);
        else if (!strcmp(k, "name_a")) strcpy(ahex, v);
        else if (!strcmp(k, "name_b")) strcpy(bhex, v);
        else if (!strcmp(k, "check")) check_flag = (unsigned) atoi(v);
        else if (!strcmp(k, "is_double")) is_double = (unsigned) atoi(v);
        else if (!strcmp(k, "value")) ivalue = atoll(v);
        else if (!strcmp(k, "capacity")) capacity = strtoul(v, 0, 10);
        else if (!strcmp(k, "op") && nops < 64) strcpy(ops[nops++], v);
        else if (!strcmp(k, "used")) w_used = strtoul(v, 0, 10);
        else if (!strcmp(k, "len")) w_len = strtoul(v, 0, 10);
        else if (!strcmp(k, "err")) w_err = atoi(v);
        else if (!strcmp(k, "has_buffer")) w_has_buffer = atoi(v);
    }
    fclose(f);
    if (max_depth < 1) max_depth = 1;
    if (!strcmp(kind, "verify")) run_verify();
    else if (!strcmp(kind, "parser_seq")) run_parser_seq();
    else if (!strcmp(kind, "parse_integer")) run_parse_integer();
    else if (!strcmp(kind, "int_pack")) run_int_pack();
    else if (!strcmp(kind, "cmp_name")) run_cmp_name();
    else if (!strcmp(kind, "write_seq")) run_write_seq();
    else if (!strcmp(kind, "write_piece")) run_write_piece();
    else { printf("unknown kind '%s'\n", kind); return 2; }
    printf(bad ? "REPLAY: VIOLATION REPRODUCED on the real code\n" : "REPLAY: real code behaves as specified on this input\n");
    return bad;
}
