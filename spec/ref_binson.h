/* Executable specification of the Binson format, written for the bounded tier (E3) and for the
 * native replay driver. Independent of the library: a token scanner plus an explicit-stack
 * recogniser / cursor, no shared code, no shared state machine (the library keeps a flag word
 * per level; this keeps a stack of container frames).
 *
 * Grammar: include/binson_defines.h. Extra rules (BINSON-SPEC-1 and the library's documented
 * limits): field names strictly ascending bytewise (memcmp order, shorter first on a tie);
 * integers and lengths in their shortest 1/2/4/8-byte form; lengths 0..INT32_MAX and inside
 * the buffer; exactly one root container, no trailing bytes; at most max_depth nesting LEVELS,
 * where a level is an object, plus one for the root of an array-rooted document (the library
 * stores the root array in state[0], see binson_parser_reset); at most 255 arrays directly
 * nested in each other.
 */
#ifndef REF_BINSON_H
#define REF_BINSON_H
#include <stdint.h>
#include <stddef.h>

#ifndef REF_MAXSTK
#define REF_MAXSTK 12
#endif

enum { RT_ERR = 0, RT_OBJ_BEGIN, RT_OBJ_END, RT_ARR_BEGIN, RT_ARR_END, RT_BOOL, RT_INT, RT_DOUBLE, RT_STRING, RT_BYTES };
enum { RW_OK = 0, RW_FORMAT = 1, RW_DEPTH_OBJECT = 2, RW_DEPTH_ARRAY = 3, RW_RANGE = 4 };

typedef struct {
    int kind;            /* RT_* */
    size_t len;          /* total encoded size of the token */
    size_t pay_off;      /* offset of the payload (string/bytes/int/double bytes) */
    size_t pay_len;
    int64_t ival;        /* RT_INT: value; RT_BOOL: 0/1 */
    int why;             /* RW_* when kind == RT_ERR */
} ref_token;

static int64_t ref_sext(const uint8_t *p, size_t w)
{
    /* loop-free on purpose (cheap to execute symbolically): w is 1, 2, 4 or 8 */
    uint64_t u = p[0];
    if (w >= 2) { u |= ((uint64_t) p[1]) << 8; }
    if (w >= 4) { u |= (((uint64_t) p[2]) << 16) | (((uint64_t) p[3]) << 24); }
    if (w >= 8) { u |= (((uint64_t) p[4]) << 32) | (((uint64_t) p[5]) << 40) |
                       (((uint64_t) p[6]) << 48) | (((uint64_t) p[7]) << 56); }
    if (w == 1 && (u & 0x80U)) { u |= ~(uint64_t) 0xFF; }
    if (w == 2 && (u & 0x8000U)) { u |= ~(uint64_t) 0xFFFF; }
    if (w == 4 && (u & 0x80000000UL)) { u |= ~(uint64_t) 0xFFFFFFFFUL; }
    /* two's complement reinterpretation without implementation-defined conversion */
    if (u & ((uint64_t) 1 << 63)) {
        return -(int64_t) (~u) - 1;
    }
    return (int64_t) u;
}

static int ref_minimal(int64_t v, size_t w)
{
    size_t need = (v >= -128 && v <= 127) ? 1 : (v >= -32768 && v <= 32767) ? 2 :
                  (v >= -2147483648LL && v <= 2147483647LL) ? 4 : 8;
    return need == w;
}

/* scan one token at b[pos..n) */
static ref_token ref_scan(const uint8_t *b, size_t n, size_t pos)
{
    ref_token t;
    t.kind = RT_ERR; t.len = 0; t.pay_off = 0; t.pay_len = 0; t.ival = 0; t.why = RW_RANGE;
    if (pos >= n) {
        return t;
    }
    uint8_t c = b[pos];
    size_t rem = n - pos - 1;
    t.why = RW_FORMAT;
    if (c == 0x40) { t.kind = RT_OBJ_BEGIN; t.len = 1; return t; }
    if (c == 0x41) { t.kind = RT_OBJ_END; t.len = 1; return t; }
    if (c == 0x42) { t.kind = RT_ARR_BEGIN; t.len = 1; return t; }
    if (c == 0x43) { t.kind = RT_ARR_END; t.len = 1; return t; }
    if (c == 0x44 || c == 0x45) { t.kind = RT_BOOL; t.len = 1; t.ival = (c == 0x44); return t; }
    if (c == 0x46) {
        if (rem < 8) { t.why = RW_RANGE; return t; }
        t.kind = RT_DOUBLE; t.len = 9; t.pay_off = pos + 1; t.pay_len = 8; return t;
    }
    if (c >= 0x10 && c <= 0x13) {
        size_t w = (size_t) 1 << (c - 0x10);
        if (rem < w) { t.why = RW_RANGE; return t; }
        int64_t v = ref_sext(b + pos + 1, w);
        if (!ref_minimal(v, w)) { return t; }
        t.kind = RT_INT; t.len = 1 + w; t.pay_off = pos + 1; t.pay_len = w; t.ival = v; return t;
    }
    if ((c >= 0x14 && c <= 0x16) || (c >= 0x18 && c <= 0x1a)) {
        size_t w = (size_t) 1 << (c & 3);
        if (rem < w) { t.why = RW_RANGE; return t; }
        int64_t v = ref_sext(b + pos + 1, w);
        if (!ref_minimal(v, w) || v < 0) { return t; }
        if ((uint64_t) v > (uint64_t) (rem - w)) { t.why = RW_RANGE; return t; }
        t.kind = (c < 0x18) ? RT_STRING : RT_BYTES;
        t.len = 1 + w + (size_t) v; t.pay_off = pos + 1 + w; t.pay_len = (size_t) v; return t;
    }
    return t;
}

/* bytewise three-way compare of two names: <0, 0, >0 */
static int ref_cmp(const uint8_t *a, size_t al, const uint8_t *b, size_t bl)
{
    size_t m = (al < bl) ? al : bl;
    for (size_t i = 0; i < m; i++) {
        if (a[i] != b[i]) {
            return (a[i] < b[i]) ? -1 : 1;
        }
    }
    return (al < bl) ? -1 : (al > bl) ? 1 : 0;
}

typedef struct {
    uint8_t is_array;
    uint8_t expect_value;      /* objects: a name has been read, its value is due */
    uint8_t has_name;
    size_t name_off, name_len; /* last name read at this level (objects) */
} ref_frame;

/* 1 iff b[0..n) is exactly one well-formed document of the given root kind within the limits;
 * *why = RW_* of the first obstacle otherwise */
static int ref_verify(const uint8_t *b, size_t n, int root_array, unsigned max_depth, int *why)
{
    ref_frame stk[REF_MAXSTK];
    size_t sp = 0, pos = 0;
    unsigned levels = root_array ? 1 : 0;   /* nesting levels in use */
    unsigned arr_run = 0;                   /* arrays directly nested in each other on top of the stack */
    *why = RW_FORMAT;
    if (n < 2) { *why = RW_RANGE; return 0; }
    if (root_array) {
        if (b[0] != 0x42 || b[n - 1] != 0x43) { return 0; }
    } else {
        if (b[0] != 0x40 || b[n - 1] != 0x41) { return 0; }
    }
    for (;;) {
        ref_token t = ref_scan(b, n, pos);
        if (t.kind == RT_ERR) { *why = t.why; return 0; }
        int is_value = (t.kind == RT_BOOL || t.kind == RT_INT || t.kind == RT_DOUBLE ||
                        t.kind == RT_STRING || t.kind == RT_BYTES);
        if (sp > 0 && !stk[sp - 1].is_array) {
            ref_frame *f = &stk[sp - 1];
            if (!f->expect_value) {
                if (t.kind == RT_STRING) {
                    if (f->has_name &&
                        ref_cmp(b + f->name_off, f->name_len, b + t.pay_off, t.pay_len) >= 0) {
                        *why = RW_FORMAT; return 0;
                    }
                    f->has_name = 1; f->name_off = t.pay_off; f->name_len = t.pay_len;
                    f->expect_value = 1;
                    pos += t.len;
                    continue;
                }
                if (t.kind != RT_OBJ_END) { *why = RW_FORMAT; return 0; }
            } else {
                if (t.kind == RT_OBJ_END || t.kind == RT_ARR_END) { *why = RW_FORMAT; return 0; }
                f->expect_value = 0;     /* the value (scalar or whole container) follows */
            }
        } else if (sp > 0) {
            if (t.kind == RT_OBJ_END) { *why = RW_FORMAT; return 0; }
        }
        if (is_value) {
            if (sp == 0) { *why = RW_FORMAT; return 0; }
            pos += t.len;
            continue;
        }
        if (t.kind == RT_OBJ_BEGIN || t.kind == RT_ARR_BEGIN) {
            if (sp == 0 && ((t.kind == RT_ARR_BEGIN) != (root_array != 0))) { *why = RW_FORMAT; return 0; }
            if (t.kind == RT_OBJ_BEGIN) {
                if (levels >= max_depth || levels >= 255) { *why = RW_DEPTH_OBJECT; return 0; }
                levels++;
            } else {
                unsigned run = (sp > 0 && stk[sp - 1].is_array) ? arr_run : 0;
                if (run >= 255) { *why = RW_DEPTH_ARRAY; return 0; }
                arr_run = run + 1;
            }
            if (sp >= REF_MAXSTK) { *why = RW_FORMAT; return 0; }   /* beyond the bound of this run */
            stk[sp].is_array = (t.kind == RT_ARR_BEGIN);
            stk[sp].expect_value = 0; stk[sp].has_name = 0; stk[sp].name_off = 0; stk[sp].name_len = 0;
            sp++;
            pos += t.len;
            continue;
        }
        /* END token matching the top frame */
        if (sp == 0) { *why = RW_FORMAT; return 0; }
        if ((t.kind == RT_ARR_END) != (stk[sp - 1].is_array != 0)) { *why = RW_FORMAT; return 0; }
        if (t.kind == RT_OBJ_END) { levels--; }
        sp--;
        pos += t.len;
        /* recompute the run of directly nested arrays below */
        arr_run = 0;
        for (size_t k = sp; k > 0 && stk[k - 1].is_array; k--) { arr_run++; }
        if (sp == 0) {
            if (pos != n) { *why = RW_FORMAT; return 0; }
            *why = RW_OK;
            return 1;
        }
    }
}


/*---------------------------------------------------------------------------*/
/* Reference cursor over a VALID document (precondition: ref_verify accepted)  */
/*---------------------------------------------------------------------------*/

typedef struct {
    const uint8_t *b;
    size_t n;
    size_t pos;                  /* offset of the next unread byte */
    uint8_t kind[REF_MAXSTK];    /* containers entered so far: 0 object, 1 array */
    size_t sp;
    int root_array;
    int pending;                 /* current element is a container that has not been entered:
                                    pos is the offset of its BEGIN byte */
    int have_cur;                /* a current element exists (last next/field returned true) */
    ref_token cur;               /* the current element's value token */
    int has_name;                /* current element has a name (we are in an object) */
    int hazard;                  /* the history has entered the situation of the listed known finding
                                    C06-array-toggle-parity (see ref_leave); the bounded runs stop
                                    comparing there, the pinned run demonstrates the finding */
    size_t name_off, name_len;
} ref_cursor;

static void ref_cursor_init(ref_cursor *c, const uint8_t *b, size_t n, int root_array)
{
    c->b = b; c->n = n; c->pos = 0; c->sp = 0; c->root_array = root_array;
    c->pending = 1;              /* the root container is "pending": it is entered by go_into_* */
    c->have_cur = 0; c->has_name = 0; c->name_off = 0; c->name_len = 0; c->hazard = 0;
    c->cur = ref_scan(b, n, 0);
}

/* offset just behind the container whose BEGIN byte is at pos (valid documents only) */
static size_t ref_skip_container(const uint8_t *b, size_t n, size_t pos)
{
    size_t depth = 0;
    for (;;) {
        ref_token t = ref_scan(b, n, pos);
        if (t.kind == RT_ERR) { return n; }
        pos += t.len;
        if (t.kind == RT_OBJ_BEGIN || t.kind == RT_ARR_BEGIN) { depth++; }
        if (t.kind == RT_OBJ_END || t.kind == RT_ARR_END) {
            depth--;
            if (depth == 0) { return pos; }
        }
    }
}

/* number of nesting levels as binson_parser_get_depth reports them */
static size_t ref_depth(const ref_cursor *c)
{
    size_t d = 0;
    for (size_t i = 0; i < c->sp; i++) { if (!c->kind[i]) { d++; } }
    if (c->root_array) { d += 1; }       /* the root array occupies level 1 from init on */
    return d;
}

/* legality of the operations under the documented protocol */
static int ref_can_enter(const ref_cursor *c, int array)
{
    return c->pending && ((c->cur.kind == RT_ARR_BEGIN) == (array != 0)) &&
           (c->cur.kind == RT_ARR_BEGIN || c->cur.kind == RT_OBJ_BEGIN);
}
static int ref_can_leave(const ref_cursor *c, int array)
{
    return c->sp > 0 && (c->kind[c->sp - 1] != 0) == (array != 0);
}
static int ref_inside(const ref_cursor *c) { return c->sp > 0; }
static int ref_in_object(const ref_cursor *c) { return c->sp > 0 && !c->kind[c->sp - 1]; }

static int ref_enter(ref_cursor *c)
{
    c->kind[c->sp++] = (c->cur.kind == RT_ARR_BEGIN);
    c->pos += 1;
    c->pending = 0; c->have_cur = 0;
    return 1;
}

/* next element of the current container; 0 at its end (cursor stays before the END byte) */
static int ref_next(ref_cursor *c)
{
    if (c->pending) {                        /* a container that was not entered is skipped as one element */
        c->pos = ref_skip_container(c->b, c->n, c->pos);
        c->pending = 0;
    }
    c->have_cur = 0;
    ref_token t = ref_scan(c->b, c->n, c->pos);
    if (t.kind == RT_OBJ_END || t.kind == RT_ARR_END || t.kind == RT_ERR) { return 0; }
    c->has_name = 0;
    if (!c->kind[c->sp - 1]) {               /* object: name, then value */
        c->has_name = 1; c->name_off = t.pay_off; c->name_len = t.pay_len;
        c->pos += t.len;
        t = ref_scan(c->b, c->n, c->pos);
    }
    c->cur = t; c->have_cur = 1;
    if (t.kind == RT_OBJ_BEGIN || t.kind == RT_ARR_BEGIN) { c->pending = 1; }   /* stop before BEGIN */
    else { c->pos += t.len; }
    return 1;
}

/* leave the current container from any position; lands just behind its END byte */
static int ref_leave(ref_cursor *c)
{
    int skipped_containers = 0;      /* OBJECT elements the scan runs over (a nested array resets the toggle when it is entered) */
    for (;;) {
        if (c->pending) {
            if (c->b[c->pos] == 0x40) { skipped_containers++; }
            c->pos = ref_skip_container(c->b, c->n, c->pos); c->pending = 0;
        }
        ref_token t = ref_scan(c->b, c->n, c->pos);
        if (t.kind == RT_OBJ_END || t.kind == RT_ARR_END || t.kind == RT_ERR) { break; }
        if (t.kind == RT_OBJ_BEGIN || t.kind == RT_ARR_BEGIN) { c->pending = 1; continue; }
        c->pos += t.len;
    }
    c->pos += 1; c->sp--; c->have_cur = 0; c->pending = 0;
    /* known finding C06-array-toggle-parity: a leave scan that runs over container elements of an
     * array that is itself an element of an array disturbs the parent's stop/consume toggle (object
     * elements only: entering a nested array resets the toggle) */
    if (c->kind[c->sp] && c->sp > 0 && c->kind[c->sp - 1] && skipped_containers > 0) { c->hazard = 1; }
    return 1;
}

/* raw span of the pending container; the cursor continues behind it */
static int ref_raw(ref_cursor *c, size_t *off, size_t *len)
{
    size_t e = ref_skip_container(c->b, c->n, c->pos);
    *off = c->pos; *len = e - c->pos;
    /* get_raw is an enter + leave scan: same known finding for an array element of an array that
     * has container elements of its own */
    if (c->cur.kind == RT_ARR_BEGIN && c->sp > 0 && c->kind[c->sp - 1]) {
        size_t q = c->pos + 1;
        for (;;) {
            ref_token t = ref_scan(c->b, c->n, q);
            if (t.kind == RT_ARR_END || t.kind == RT_OBJ_END || t.kind == RT_ERR) { break; }
            if (t.kind == RT_OBJ_BEGIN) { c->hazard = 1; break; }
            if (t.kind == RT_ARR_BEGIN) { q = ref_skip_container(c->b, c->n, q); continue; }
            q += t.len;
        }
    }
    c->pos = e; c->pending = 0;
    return 1;
}

/* lookup by name in the current object: 1 iff a field with exactly these bytes exists at or
 * after the cursor; on a miss the cursor has only moved past fields with smaller names */
static int ref_field(ref_cursor *c, const uint8_t *name, size_t len)
{
    for (;;) {
        size_t save_pos = c->pos; int save_pending = c->pending;
        if (c->pending) { save_pos = ref_skip_container(c->b, c->n, c->pos); save_pending = 0; }
        c->pos = save_pos; c->pending = save_pending;
        ref_token t = ref_scan(c->b, c->n, c->pos);
        if (t.kind != RT_STRING) { c->have_cur = 0; return 0; }            /* END of the object */
        int r = ref_cmp(c->b + t.pay_off, t.pay_len, name, len);
        if (r > 0) { c->have_cur = 0; return 0; }                          /* overshoot: stay before this field */
        ref_next(c);
        if (r == 0) { return 1; }
    }
}
/*---------------------------------------------------------------------------*/
/* Reference rendering of a VALID document (property C14)                      */
/*---------------------------------------------------------------------------*/
/* objects as {"name":value,...}, arrays as [v,...], exactly one comma between siblings,
 * booleans true/false, bytes as "0x<hex>", names and strings quoted verbatim up to a 0x00 byte.
 * Number formatting is libc's: the caller supplies it (fmt_i64 / fmt_dbl), see stubs/vc_stdio.h. */
typedef size_t (*ref_fmt_i64_fn)(int64_t, char *);
typedef size_t (*ref_fmt_dbl_fn)(uint64_t, char *);

static size_t ref_render(const uint8_t *b, size_t n, char *out, size_t omax,
                         ref_fmt_i64_fn fmt_i64, ref_fmt_dbl_fn fmt_dbl)
{
    uint8_t is_arr[REF_MAXSTK]; uint8_t count[REF_MAXSTK]; uint8_t after_name[REF_MAXSTK];
    size_t sp = 0, pos = 0, o = 0;
#define REF_PUT(ch) do { if (o < omax) { out[o] = (char) (ch); } o++; } while (0)
    for (;;) {
        ref_token t = ref_scan(b, n, pos);
        if (t.kind == RT_ERR) { return o; }
        pos += t.len;
        if (t.kind == RT_OBJ_END || t.kind == RT_ARR_END) {
            REF_PUT(t.kind == RT_OBJ_END ? '}' : ']');
            sp--;
            if (sp == 0) { return o; }
            continue;
        }
        if (sp > 0 && !is_arr[sp - 1] && !after_name[sp - 1]) {     /* field name */
            if (count[sp - 1] > 0) { REF_PUT(','); }
            count[sp - 1] = 1;
            REF_PUT('"');
            for (size_t i = 0; i < t.pay_len; i++) { if (b[t.pay_off + i] == 0) { break; } REF_PUT(b[t.pay_off + i]); }
            REF_PUT('"'); REF_PUT(':');
            after_name[sp - 1] = 1;
            continue;
        }
        if (sp > 0 && is_arr[sp - 1]) { if (count[sp - 1] > 0) { REF_PUT(','); } count[sp - 1] = 1; }
        if (sp > 0 && !is_arr[sp - 1]) { after_name[sp - 1] = 0; }
        if (t.kind == RT_OBJ_BEGIN || t.kind == RT_ARR_BEGIN) {
            REF_PUT(t.kind == RT_OBJ_BEGIN ? '{' : '[');
            is_arr[sp] = (t.kind == RT_ARR_BEGIN); count[sp] = 0; after_name[sp] = 0; sp++;
        } else if (t.kind == RT_BOOL) {
            const char *w = t.ival ? "true" : "false";
            for (size_t i = 0; w[i]; i++) { REF_PUT(w[i]); }
        } else if (t.kind == RT_INT) {
            char tmp[24]; size_t L = fmt_i64(t.ival, tmp);
            for (size_t i = 0; i < L; i++) { REF_PUT(tmp[i]); }
        } else if (t.kind == RT_DOUBLE) {
            char tmp[8]; uint64_t u = 0;
            for (int i = 0; i < 8; i++) { u |= ((uint64_t) b[t.pay_off + i]) << (8 * i); }
            size_t L = fmt_dbl(u, tmp);
            for (size_t i = 0; i < L; i++) { REF_PUT(tmp[i]); }
        } else if (t.kind == RT_STRING) {
            REF_PUT('"');
            for (size_t i = 0; i < t.pay_len; i++) { if (b[t.pay_off + i] == 0) { break; } REF_PUT(b[t.pay_off + i]); }
            REF_PUT('"');
        } else if (t.kind == RT_BYTES) {
            REF_PUT('"'); REF_PUT('0'); REF_PUT('x');
            for (size_t i = 0; i < t.pay_len; i++) {
                REF_PUT("0123456789abcdef"[b[t.pay_off + i] >> 4]); REF_PUT("0123456789abcdef"[b[t.pay_off + i] & 15]);
            }
            REF_PUT('"');
        }
    }
#undef REF_PUT
}

#endif
