/* Native sanity check of the reference renderer against binson_parser_to_string with the real libc
 * (development aid, not a registered check). usage: ref_render_selftest <file>... */
#include <stdio.h>
#include <stdlib.h>
#include <string.h>
#include <inttypes.h>
#define REF_MAXSTK 1024
#include "ref_binson.h"
#include "binson_parser.h"
static size_t f_i64(int64_t v, char *t) { return (size_t) sprintf(t, "%" PRId64, v); }
static char big[400];
static size_t f_dbl(uint64_t u, char *t) { double d; memcpy(&d, &u, 8); size_t L = (size_t) snprintf(big, sizeof big, "%lf", d); memcpy(t, big, L < 8 ? L : 8); return L; }
int main(int argc, char **argv)
{
    int bad = 0, n_ok = 0;
    for (int i = 1; i < argc; i++) {
        FILE *f = fopen(argv[i], "rb"); if (!f) continue;
        static uint8_t buf[1 << 16]; size_t n = fread(buf, 1, sizeof buf, f); fclose(f);
        int why; if (!ref_verify(buf, n, 0, 10, &why)) continue;
        static char exp[1 << 18], got[1 << 18];
        /* doubles: render through libc directly in a second pass is awkward; skip documents with doubles */
        int has_dbl = 0; for (size_t p = 0; p < n;) { ref_token t = ref_scan(buf, n, p); if (t.kind == RT_ERR) break; if (t.kind == RT_DOUBLE) has_dbl = 1; p += (t.kind == RT_STRING || t.kind == RT_BYTES || t.kind == RT_INT || t.kind == RT_DOUBLE) ? t.len : 1; }
        if (has_dbl) continue;
        size_t L = ref_render(buf, n, exp, sizeof exp, f_i64, f_dbl);
        BINSON_PARSER_DEF(p); binson_parser_init(&p, buf, n);
        size_t sz = sizeof got; bool r = binson_parser_to_string(&p, got, &sz, false);
        if (!r || sz != L || memcmp(exp, got, L)) { printf("MISMATCH %s: r=%d size=%zu ref=%zu\n  got %.*s\n  exp %.*s\n", argv[i], r, sz, L, (int) (sz < 200 ? sz : 200), got, (int) (L < 200 ? L : 200), exp); bad++; }
        else n_ok++;
    }
    printf("rendered %d valid documents identically, %d mismatches\n", n_ok, bad);
    return bad != 0;
}
