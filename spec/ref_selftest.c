/* Native sanity check of the executable specification against the library (not a registered
 * check: the spec is the trusted oracle of the bounded tier; this only guards against typos).
 * usage: ref_selftest <file>...   and   ref_selftest --fuzz <seed> <iterations> */
#include <stdio.h>
#include <stdlib.h>
#include <string.h>
#define REF_MAXSTK 1024
#include "ref_binson.h"
#include "binson_parser.h"

static int lib_verify(const uint8_t *b, size_t n, int arr, unsigned md, int *err)
{
    binson_parser p; binson_state *st = malloc(md * sizeof(binson_state));
    memset(&p, 0xAB, sizeof p); memset(st, 0xAB, md * sizeof(binson_state));
    p.state = st; p.max_depth = (uint_fast8_t) md;
    uint8_t *c = malloc(n ? n : 1); memcpy(c, b, n);
    bool r = arr ? binson_parser_init_array(&p, c, n) : binson_parser_init_object(&p, c, n);
    r = binson_parser_verify(&p);
    *err = p.error_flags;
    free(st); free(c);
    return r;
}

static int check(const uint8_t *b, size_t n, const char *what)
{
    int bad = 0;
    for (int arr = 0; arr < 2; arr++) {
        unsigned mds[] = {1, 2, 3, 10, 255};
        for (int k = 0; k < 5; k++) {
            int why, err;
            int r = ref_verify(b, n, arr, mds[k], &why);
            int l = lib_verify(b, n, arr, mds[k], &err);
            int codeok = r || !((why == RW_DEPTH_OBJECT && err != BINSON_ERROR_MAX_DEPTH_OBJECT) ||
                                (why == RW_DEPTH_ARRAY && err != BINSON_ERROR_MAX_DEPTH_ARRAY));
            if (r != l || !codeok) {
                printf("MISMATCH %s arr=%d md=%u ref=%d(why %d) lib=%d(err %d) n=%zu:", what, arr, mds[k], r, why, l, err, n);
                for (size_t i = 0; i < n && i < 40; i++) printf(" %02x", b[i]);
                printf("\n"); bad++;
            }
        }
    }
    return bad;
}

static uint64_t rs;
static unsigned rnd(void) { rs ^= rs << 13; rs ^= rs >> 7; rs ^= rs << 17; return (unsigned) (rs >> 11); }

int main(int argc, char **argv)
{
    int bad = 0, nfiles = 0;
    if (argc > 3 && !strcmp(argv[1], "--fuzz")) {
        rs = strtoull(argv[2], 0, 10) * 2654435761u + 88172645463325252ull;
        long it = atol(argv[3]);
        static const uint8_t alpha[] = {0x40,0x41,0x42,0x43,0x44,0x45,0x46,0x10,0x11,0x12,0x13,0x14,0x15,0x16,0x18,0x19,0x1a,0x00,0x01,0x02,0x7f,0x80,0xff,0x61,0x62};
        uint8_t b[24];
        for (long i = 0; i < it; i++) {
            size_t n = rnd() % 16;
            for (size_t k = 0; k < n; k++) b[k] = (rnd() % 8) ? alpha[rnd() % sizeof alpha] : (uint8_t) rnd();
            if (n >= 2 && rnd() % 2) { int a = rnd() % 2; b[0] = a ? 0x42 : 0x40; b[n-1] = a ? 0x43 : 0x41; }
            bad += check(b, n, "fuzz");
        }
        printf("fuzz: %ld inputs, %d mismatches\n", it, bad);
        return bad != 0;
    }
    for (int i = 1; i < argc; i++) {
        FILE *f = fopen(argv[i], "rb"); if (!f) continue;
        static uint8_t buf[1 << 20]; size_t n = fread(buf, 1, sizeof buf, f); fclose(f);
        bad += check(buf, n, argv[i]); nfiles++;
    }
    printf("files: %d, mismatches %d\n", nfiles, bad);
    return bad != 0;
}
