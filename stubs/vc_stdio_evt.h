/* Event-level stand-ins for snprintf/printf for the bounded rendering check: every call is
 * recorded as an event (kind, argument); characters are not modelled (faithful formatting of a
 * conversion is libc's contract). snprintf behaves as the C99 contract says about sizes: it
 * writes min(n, L+1) bytes (asserted writable, then havocked) and returns L, where L is a
 * deterministic function of the event (vc_evt_len), the same one the reference renderer uses. */
#ifndef VC_STDIO_EVT_H
#define VC_STDIO_EVT_H
#include <stdio.h>
#include <stdint.h>
#include <stddef.h>

#ifndef VC_EVMAX
#define VC_EVMAX 40
#endif
enum { EV_LIT = 1, EV_BOOL, EV_I64, EV_DBL, EV_HEX, EV_SPAN_VALUE, EV_SPAN_NAME };
typedef struct { uint8_t kind; uint64_t a; uint64_t b; } vc_event;
/* a: LIT first character (the literals are single characters or "\"0x"), BOOL 0/1, I64 value, DBL bits,
 *    HEX byte, SPAN pointer (as integer offset is not available: the pointer itself); b: SPAN precision */

typedef struct { vc_event e[VC_EVMAX]; size_t n; size_t len; } vc_evlog;
extern vc_evlog vc_log_snp, vc_log_prf;
extern size_t vc_len_sum;

static size_t vc_len_i64(int64_t v)
{
    uint64_t u = (v < 0) ? (uint64_t) (-(v + 1)) + 1 : (uint64_t) v;
    size_t d = 1;
    if (u >= 10ULL) d = 2;
    if (u >= 100ULL) d = 3;
    if (u >= 1000ULL) d = 4;
    if (u >= 10000ULL) d = 5;
    if (u >= 100000ULL) d = 6;
    if (u >= 1000000ULL) d = 7;
    if (u >= 10000000ULL) d = 8;
    if (u >= 100000000ULL) d = 9;
    if (u >= 1000000000ULL) d = 10;
    if (u >= 10000000000ULL) d = 11;
    if (u >= 100000000000ULL) d = 12;
    if (u >= 1000000000000ULL) d = 13;
    if (u >= 10000000000000ULL) d = 14;
    if (u >= 100000000000000ULL) d = 15;
    if (u >= 1000000000000000ULL) d = 16;
    if (u >= 10000000000000000ULL) d = 17;
    if (u >= 100000000000000000ULL) d = 18;
    if (u >= 1000000000000000000ULL) d = 19;
    if (u >= 10000000000000000000ULL) d = 20;
    return d + ((v < 0) ? 1 : 0);
}
/* characters a "%.*s" conversion prints: up to prec bytes, stopping at a NUL */
static size_t vc_len_span(const char *p, size_t prec)
{
    size_t k = 0;
    while (k < prec && p[k] != 0) { k++; }
    return k;
}
static size_t vc_evt_len(uint8_t kind, uint64_t a, size_t spanlen, size_t litlen)
{
    return (kind == EV_LIT) ? litlen : (kind == EV_BOOL) ? (a ? 4 : 5) : (kind == EV_I64) ? vc_len_i64((int64_t) a) :
           (kind == EV_DBL) ? 3 + (size_t) (a & 3U) : (kind == EV_HEX) ? 2 :
           (kind == EV_SPAN_VALUE) ? 2 + spanlen : 3 + spanlen;
}
static size_t vc_log_add(vc_evlog *lg, uint8_t kind, uint64_t a, uint64_t b, size_t L)
{
    if (lg->n < VC_EVMAX) { lg->e[lg->n].kind = kind; lg->e[lg->n].a = a; lg->e[lg->n].b = b; }
    lg->n++;
    lg->len += L;
    return L;
}
static int vc_snp_common(char *s, size_t n, size_t L)
{
    if (n > 0) {
        size_t w = (L + 1 < n) ? L + 1 : n;
        __CPROVER_assert(__CPROVER_w_ok(s, w), "snprintf: the min(n, L+1) bytes it writes are inside the destination");   /*@ B/no-store-beyond-capacity */
        __CPROVER_havoc_slice(s, w);
    }
    vc_len_sum += L;
    return (int) L;
}
static int64_t vc_i64_of(uint64_t u) { return (u & ((uint64_t) 1 << 63)) ? -(int64_t) (~u) - 1 : (int64_t) u; }
static uint64_t vc_u64_of(int64_t v) { return (uint64_t) v; }

static int vc_snp_lit(char *s, size_t n, const char *f, size_t fl) { return vc_snp_common(s, n, vc_log_add(&vc_log_snp, EV_LIT, (uint8_t) f[0], fl, fl)); }
static int vc_snp_str(char *s, size_t n, const char *f, const char *a) { (void) f; uint64_t t = (a[0] == 't'); return vc_snp_common(s, n, vc_log_add(&vc_log_snp, EV_BOOL, t, 0, t ? 4 : 5)); }
static int vc_snp_i64(char *s, size_t n, const char *f, int64_t a) { (void) f; return vc_snp_common(s, n, vc_log_add(&vc_log_snp, EV_I64, vc_u64_of(a), 0, vc_len_i64(a))); }
static int vc_snp_dbl(char *s, size_t n, const char *f, double a) { union { double d; uint64_t u; } x; (void) f; x.d = a; return vc_snp_common(s, n, vc_log_add(&vc_log_snp, EV_DBL, x.u, 0, 3 + (size_t) (x.u & 3U))); }
static int vc_snp_hex(char *s, size_t n, const char *f, unsigned a) { (void) f; return vc_snp_common(s, n, vc_log_add(&vc_log_snp, EV_HEX, a, 0, 2)); }
static int vc_snp_span(char *s, size_t n, const char *f, size_t fl, int w, int prec, const char *p)
{
    (void) w;
    uint8_t k = (f[fl - 1] == ':') ? EV_SPAN_NAME : EV_SPAN_VALUE;
    size_t sl = vc_len_span(p, (size_t) prec);
    return vc_snp_common(s, n, vc_log_add(&vc_log_snp, k, (uint64_t) (size_t) p, (uint64_t) prec, (fl - 5) + sl));
}
static int vc_prf_lit(const char *f, size_t fl) { return (int) vc_log_add(&vc_log_prf, EV_LIT, (uint8_t) f[0], fl, fl); }
static int vc_prf_str(const char *f, const char *a) { (void) f; uint64_t t = (a[0] == 't'); return (int) vc_log_add(&vc_log_prf, EV_BOOL, t, 0, t ? 4 : 5); }
static int vc_prf_i64(const char *f, int64_t a) { (void) f; return (int) vc_log_add(&vc_log_prf, EV_I64, vc_u64_of(a), 0, vc_len_i64(a)); }
static int vc_prf_dbl(const char *f, double a) { union { double d; uint64_t u; } x; (void) f; x.d = a; return (int) vc_log_add(&vc_log_prf, EV_DBL, x.u, 0, 3 + (size_t) (x.u & 3U)); }
static int vc_prf_hex(const char *f, unsigned a) { (void) f; return (int) vc_log_add(&vc_log_prf, EV_HEX, a, 0, 2); }
static int vc_prf_span(const char *f, size_t fl, int w, int prec, const char *p)
{
    (void) w;
    uint8_t k = (f[fl - 1] == ':') ? EV_SPAN_NAME : EV_SPAN_VALUE;
    return (int) vc_log_add(&vc_log_prf, k, (uint64_t) (size_t) p, (uint64_t) prec, (fl - 5) + vc_len_span(p, (size_t) prec));
}

#define VC_SNP_SEL(_1, _2, _3, _4, _5, _6, NAME, ...) NAME
#define VC_SNP3(s, n, f)            vc_snp_lit(s, n, f, sizeof(f) - 1)
#define VC_SNP4(s, n, f, a)         _Generic((a), const char *: vc_snp_str, char *: vc_snp_str, double: vc_snp_dbl, \
                                             int64_t: vc_snp_i64, default: vc_snp_hex)(s, n, f, a)
#define VC_SNP6(s, n, f, w, p, x)   vc_snp_span(s, n, f, sizeof(f) - 1, w, p, x)
#define snprintf(...) VC_SNP_SEL(__VA_ARGS__, VC_SNP6, VC_BAD_SNPRINTF_ARITY, VC_SNP4, VC_SNP3, VC_BAD_SNPRINTF_ARITY, VC_BAD_SNPRINTF_ARITY)(__VA_ARGS__)
#define VC_PRF_SEL(_1, _2, _3, _4, NAME, ...) NAME
#define VC_PRF1(f)                  vc_prf_lit(f, sizeof(f) - 1)
#define VC_PRF2(f, a)               _Generic((a), const char *: vc_prf_str, char *: vc_prf_str, double: vc_prf_dbl, \
                                             int64_t: vc_prf_i64, default: vc_prf_hex)(f, a)
#define VC_PRF4(f, w, p, x)         vc_prf_span(f, sizeof(f) - 1, w, p, x)
#define printf(...) VC_PRF_SEL(__VA_ARGS__, VC_PRF4, VC_BAD_PRINTF_ARITY, VC_PRF2, VC_PRF1)(__VA_ARGS__)
#endif
