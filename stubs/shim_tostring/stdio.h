/* Shim used ONLY by contracts/h_tostring.c. src/binson_parser.c includes <stdio.h> exactly once,
 * between the definition of binson_parser_verify and the two print functions that call it. This
 * shim forwards to the real header and then redirects the calls that FOLLOW (in print/to_string)
 * to the harness's summary of verify-in-print-mode - without editing the library source. */
#include_next <stdio.h>
#ifdef VC_SHIM_REDIRECT_VERIFY
#undef binson_parser_verify
#define binson_parser_verify(p) vc_verify_dispatch(p)
#endif
