/* Assumed contracts of the libc functions the library calls (DESIGN.md section 7).
 * They are ASSUMPTIONS of every proof that replaces the call by the contract:
 * nothing here is verified against a libc implementation. Included by the E1
 * harnesses BEFORE the library source, so that the calls in the real code are
 * redirected by macro without editing the source. */
#ifndef VC_LIBC_H
#define VC_LIBC_H
#include <string.h>
#include <stdint.h>
#include "binson_parser.h"
#include "binson_verif.h"

/* ghost results of the last libc call, so that contracts of callers can be
 * stated relative to the libc specification without quantifiers */
extern int    vc_memcmp_result;
extern size_t vc_memcmp_n;
extern const void *vc_memcmp_a, *vc_memcmp_b;
extern size_t vc_strlen_result;
extern size_t vc_memcmp_idx;   /* existential witness: index of the first differing byte */
extern size_t vc_j;

/* memset: C11 7.24.6.1. CBMC's built-in model is exact only for constant sizes
 * (measured: a symbolic-size memset leaves the object unconstrained), so the
 * E1 proof of binson_parser_reset uses this contract. The post-condition is the
 * typed reading of "every byte is c" for c == 0 on an array of binson_state:
 * all-bits-zero scalars read as 0 and all-bits-zero pointers as NULL (true on
 * every ABI the library targets; the library itself relies on it). */
void *vc_memset(void *s, int c, size_t n)
__CPROVER_requires(__CPROVER_w_ok(s, n))
__CPROVER_assigns(__CPROVER_object_upto(s, n))
__CPROVER_ensures(__CPROVER_return_value == s)
__CPROVER_ensures((c == 0 && vc_k < n / sizeof(binson_state)) ==>
                  VC_LEVEL_ZERO(&((binson_state *) s)[vc_k]))
__CPROVER_ensures((c == 0 && n >= sizeof(binson_state)) ==> VC_LEVEL_ZERO(&((binson_state *) s)[0]))
;


/* memcmp: C11 7.24.4.1 - compares the first n bytes as unsigned char; the sign of a non-zero
 * result is the sign of the difference of the first differing pair. n == 0 touches nothing
 * (assumption 1 of DESIGN.md section 7: true of every libc, formally unspecified for invalid
 * pointers). Stated with the ghost byte index vc_j and the existential witness vc_memcmp_idx. */
int vc_memcmp(const void *a, const void *b, size_t n)
__CPROVER_requires(n == 0 || (__CPROVER_r_ok(a, n) && __CPROVER_r_ok(b, n)))
__CPROVER_assigns(vc_memcmp_result, vc_memcmp_n, vc_memcmp_a, vc_memcmp_b, vc_memcmp_idx)
__CPROVER_ensures(vc_memcmp_result == __CPROVER_return_value && vc_memcmp_n == n &&
                  vc_memcmp_a == a && vc_memcmp_b == b)
__CPROVER_ensures((__CPROVER_return_value == 0 && vc_j < n) ==>
                  ((const unsigned char *) a)[vc_j] == ((const unsigned char *) b)[vc_j])
__CPROVER_ensures(__CPROVER_return_value != 0 ==>
                  (vc_memcmp_idx < n &&
                   ((const unsigned char *) a)[vc_memcmp_idx] != ((const unsigned char *) b)[vc_memcmp_idx] &&
                   ((__CPROVER_return_value < 0) ==
                    (((const unsigned char *) a)[vc_memcmp_idx] < ((const unsigned char *) b)[vc_memcmp_idx])) &&
                   (vc_j < vc_memcmp_idx ==>
                    ((const unsigned char *) a)[vc_j] == ((const unsigned char *) b)[vc_j])))
;

/* strlen: C11 7.24.6.3 - index of the first NUL. The argument must be a string whose
 * terminator is known to lie within vc_cstr_max bytes (ghost, set by the harness that built
 * the string): that is "s points to a valid C string" without quantifiers. */
extern size_t vc_cstr_max;
size_t vc_strlen(const char *s)
__CPROVER_requires(__CPROVER_r_ok(s, vc_cstr_max + 1) && s[vc_cstr_max] == 0)
__CPROVER_assigns(vc_strlen_result)
__CPROVER_ensures(vc_strlen_result == __CPROVER_return_value && __CPROVER_return_value <= vc_cstr_max)
__CPROVER_ensures(s[__CPROVER_return_value] == 0)
__CPROVER_ensures(vc_j < __CPROVER_return_value ==> s[vc_j] != 0)
;

#endif
