/* Assumed contracts of the libc functions the library calls (DESIGN.md section 7).
 * They are ASSUMPTIONS of every proof that replaces the call by the contract:
 * nothing here is verified against a libc implementation. Included by the E1
 * harnesses BEFORE the library source, so that the calls in the real code are
 * redirected by macro without editing the source. */
#ifndef VC_LIBC_H
#define VC_LIBC_H
#include <string.h>
#include <stdint.h>
#include "binson_parser.h"
#include "binson_verif.h"

/* ghost results of the last libc call, so that contracts of callers can be
 * stated relative to the libc specification without quantifiers */
extern int    vc_memcmp_result;
extern size_t vc_memcmp_n;
extern const void *vc_memcmp_a, *vc_memcmp_b;
extern size_t vc_strlen_result;

/* memset: C11 7.24.6.1. CBMC's built-in model is exact only for constant sizes
 * (measured: a symbolic-size memset leaves the object unconstrained), so the
 * E1 proof of binson_parser_reset uses this contract. The post-condition is the
 * typed reading of "every byte is c" for c == 0 on an array of binson_state:
 * all-bits-zero scalars read as 0 and all-bits-zero pointers as NULL (true on
 * every ABI the library targets; the library itself relies on it). */
void *vc_memset(void *s, int c, size_t n)
__CPROVER_requires(__CPROVER_w_ok(s, n))
__CPROVER_assigns(__CPROVER_object_upto(s, n))
__CPROVER_ensures(__CPROVER_return_value == s)
__CPROVER_ensures((c == 0 && vc_k < n / sizeof(binson_state)) ==>
                  VC_LEVEL_ZERO(&((binson_state *) s)[vc_k]))
__CPROVER_ensures((c == 0 && n >= sizeof(binson_state)) ==> VC_LEVEL_ZERO(&((binson_state *) s)[0]))
;

#endif
