/* Abstract (loop-free) stand-ins for snprintf/printf, for the unbounded E1 proofs of the print
 * callbacks. ASSUMED libc contract (C99 7.19.6.5): snprintf writes min(n, L+1) bytes at s (nothing
 * if n == 0) and returns the would-be length L, which depends only on format and arguments - L is
 * an uninterpreted function of them, so two runs with different capacities see the same L.
 * L = strlen(fmt) for literals, 2 for %02x of a byte, 4/5 for %s of "true"/"false", 1..20 for
 * PRId64, 3..317 for %lf, 2+k / 3+k with k <= precision for the two %.*s forms.
 * Each stand-in ASSERTS that the bytes snprintf actually writes are writable: that is the
 * obligation "stores nothing at or beyond the capacity". Written bytes are havocked (contents
 * are the bounded tier's business); vc_len_sum accumulates the returned lengths (ghost). */
#ifndef VC_STDIO_ABS_H
#define VC_STDIO_ABS_H
#include <stdio.h>
#include <stdint.h>
#include <stddef.h>

extern size_t vc_len_sum;
extern size_t vc_prf_events;          /* number of printf calls (ghost) */

size_t __CPROVER_uninterpreted_i64len(int64_t);
size_t __CPROVER_uninterpreted_dbllen(uint64_t);
size_t __CPROVER_uninterpreted_spanlen(const char *, int);

static int vc_snp_common(char *s, size_t n, size_t L)
{
    if (n > 0) {
        size_t w = (L + 1 < n) ? L + 1 : n;
        __CPROVER_assert(__CPROVER_w_ok(s, w), "snprintf: the min(n, L+1) bytes it writes are inside the destination");   /*@ no-store-beyond-capacity */
        __CPROVER_havoc_slice(s, w);
    }
    vc_len_sum += L;
    return (int) L;
}
static int vc_snp_lit(char *s, size_t n, const char *f, size_t fl) { (void) f; return vc_snp_common(s, n, fl); }
static int vc_snp_str(char *s, size_t n, const char *f, const char *a) { (void) f; return vc_snp_common(s, n, (a[0] == 't') ? 4 : 5); }
static int vc_snp_i64(char *s, size_t n, const char *f, int64_t a)
{ (void) f; size_t L = __CPROVER_uninterpreted_i64len(a); __CPROVER_assume(L >= 1 && L <= 20); return vc_snp_common(s, n, L); }
static int vc_snp_dbl(char *s, size_t n, const char *f, double a)
{ union { double d; uint64_t u; } x; (void) f; x.d = a; size_t L = __CPROVER_uninterpreted_dbllen(x.u); __CPROVER_assume(L >= 3 && L <= 317); return vc_snp_common(s, n, L); }
static int vc_snp_hex(char *s, size_t n, const char *f, unsigned a)
{ (void) f; __CPROVER_assert(a <= 255, "%02x argument is one byte"); return vc_snp_common(s, n, 2); }
static int vc_snp_span(char *s, size_t n, const char *f, size_t fl, int w, int prec, const char *p)
{
    (void) f;
    __CPROVER_assert(w == 0 && prec >= 0, "%*.*s: width 0, precision >= 0");                                             /*@ span-precision-nonnegative */
    __CPROVER_assert(prec == 0 || __CPROVER_r_ok(p, (size_t) prec), "%.*s: precision bytes are readable");             /*@ span-readable */
    size_t k = __CPROVER_uninterpreted_spanlen(p, prec);
    __CPROVER_assume(k <= (size_t) prec);
    return vc_snp_common(s, n, (fl - 5) + k);      /* fl = strlen of "\"%*.*s\"" or "\"%*.*s\":" */
}
static int vc_prf_any(void) { vc_prf_events++; return 0; }

#define VC_SNP_SEL(_1, _2, _3, _4, _5, _6, NAME, ...) NAME
#define VC_SNP3(s, n, f)            vc_snp_lit(s, n, f, sizeof(f) - 1)
#define VC_SNP4(s, n, f, a)         _Generic((a), const char *: vc_snp_str, char *: vc_snp_str, double: vc_snp_dbl, \
                                             int64_t: vc_snp_i64, default: vc_snp_hex)(s, n, f, a)
#define VC_SNP6(s, n, f, w, p, x)   vc_snp_span(s, n, f, sizeof(f) - 1, w, p, x)
#define snprintf(...) VC_SNP_SEL(__VA_ARGS__, VC_SNP6, VC_BAD_SNPRINTF_ARITY, VC_SNP4, VC_SNP3, VC_BAD_SNPRINTF_ARITY, VC_BAD_SNPRINTF_ARITY)(__VA_ARGS__)
#define printf(...) vc_prf_any()
#endif
