/* Fixed-arity stand-ins for the snprintf/printf calls of the print code (the library calls them
 * with six different shapes; CBMC has no model of the variadic originals and DFCC cannot
 * instrument variadics). Selected by argument count and _Generic on the argument type, without
 * editing the library source. ASSUMED libc contract (C99 7.19.6.5): snprintf writes
 * min(n, L+1) bytes at s (nothing if n == 0), the last one NUL, and returns the would-be length
 * L, which does not depend on s or n. The stub ASSERTS that exactly those bytes are writable -
 * this is the obligation "stores nothing at or beyond the capacity".
 * Number formatting is libc's and is not under test: integers are rendered in decimal by
 * vc_fmt_i64 (shared with the reference renderer), doubles by a placeholder whose length depends
 * on the value (so that size accounting is exercised with varying lengths). */
#ifndef VC_STDIO_H
#define VC_STDIO_H
#include <stdio.h>
#include <stdint.h>
#include <stddef.h>

#ifndef VC_OUTMAX
#define VC_OUTMAX 64
#endif
extern char vc_stdout[VC_OUTMAX];     /* what printf has written so far */
extern size_t vc_stdout_len;
extern size_t vc_len_sum;             /* ghost: sum of the would-be lengths returned by snprintf */

/* decimal rendering of v into t (at least 21 bytes); returns the length */
static size_t vc_fmt_i64(int64_t v, char *t)
{
    char tmp[20]; size_t k = 0, o = 0;
    uint64_t u = (v < 0) ? (uint64_t) (-(v + 1)) + 1 : (uint64_t) v;
    do { tmp[k++] = (char) ('0' + (u % 10)); u /= 10; } while (u != 0 && k < 20);
    if (v < 0) { t[o++] = '-'; }
    while (k > 0) { t[o++] = tmp[--k]; }
    return o;
}

/* placeholder for printf("%lf"): 'D' followed by 2..5 '#', depending on the bits of the value */
static size_t vc_fmt_dbl(uint64_t bits, char *t)
{
    size_t L = 3 + (size_t) (bits & 3U);
    t[0] = 'D';
    for (size_t i = 1; i < L; i++) { t[i] = '#'; }
    return L;
}

static int vc_snp_emit(char *s, size_t n, const char *t, size_t L)
{
    if (n > 0) {
        size_t w = (L + 1 < n) ? L + 1 : n;
        __CPROVER_assert(__CPROVER_w_ok(s, w), "snprintf: the min(n, L+1) bytes it writes are inside the destination");   /*@ no-store-beyond-capacity */
        for (size_t i = 0; i + 1 < w; i++) { s[i] = t[i]; }
        s[w - 1] = 0;
    }
    vc_len_sum += L;
    return (int) L;
}
static void vc_prf_emit(const char *t, size_t L)
{
    for (size_t i = 0; i < L; i++) { if (vc_stdout_len < VC_OUTMAX) { vc_stdout[vc_stdout_len] = t[i]; } vc_stdout_len++; }
}

static size_t vc_span_text(const char *fmt, size_t fl, int prec, const char *p, char *t, size_t tmax)
{
    /* fmt is "\"%*.*s\"" or "\"%*.*s\":" : quote, at most prec bytes of p up to a NUL, quote, [colon] */
    size_t o = 0;
    t[o++] = '"';
    for (int i = 0; i < prec && o + 3 < tmax; i++) { if (p[i] == 0) { break; } t[o++] = p[i]; }
    t[o++] = '"';
    if (fmt[fl - 1] == ':') { t[o++] = ':'; }
    return o;
}

#define VC_TMAX 48
static int vc_snp_lit(char *s, size_t n, const char *f, size_t fl) { return vc_snp_emit(s, n, f, fl); }
static int vc_snp_str(char *s, size_t n, const char *f, const char *a) { (void) f; return vc_snp_emit(s, n, a, (a[0] == 't') ? 4 : 5); }
static int vc_snp_i64(char *s, size_t n, const char *f, int64_t a) { char t[24]; (void) f; size_t L = vc_fmt_i64(a, t); return vc_snp_emit(s, n, t, L); }
static int vc_snp_dbl(char *s, size_t n, const char *f, double a) { char t[8]; union { double d; uint64_t u; } x; (void) f; x.d = a; size_t L = vc_fmt_dbl(x.u, t); return vc_snp_emit(s, n, t, L); }
static int vc_snp_hex(char *s, size_t n, const char *f, unsigned a) { char t[2]; (void) f; t[0] = "0123456789abcdef"[(a >> 4) & 15]; t[1] = "0123456789abcdef"[a & 15]; return vc_snp_emit(s, n, t, 2); }
static int vc_snp_span(char *s, size_t n, const char *f, size_t fl, int w, int prec, const char *p)
{ char t[VC_TMAX]; __CPROVER_assert(w == 0 && prec >= 0, "%*.*s: width 0, precision >= 0"); size_t L = vc_span_text(f, fl, prec, p, t, VC_TMAX); return vc_snp_emit(s, n, t, L); }

static int vc_prf_lit(const char *f, size_t fl) { vc_prf_emit(f, fl); return (int) fl; }
static int vc_prf_str(const char *f, const char *a) { (void) f; size_t L = (a[0] == 't') ? 4 : 5; vc_prf_emit(a, L); return (int) L; }
static int vc_prf_i64(const char *f, int64_t a) { char t[24]; (void) f; size_t L = vc_fmt_i64(a, t); vc_prf_emit(t, L); return (int) L; }
static int vc_prf_dbl(const char *f, double a) { char t[8]; union { double d; uint64_t u; } x; (void) f; x.d = a; size_t L = vc_fmt_dbl(x.u, t); vc_prf_emit(t, L); return (int) L; }
static int vc_prf_hex(const char *f, unsigned a) { char t[2]; (void) f; t[0] = "0123456789abcdef"[(a >> 4) & 15]; t[1] = "0123456789abcdef"[a & 15]; vc_prf_emit(t, 2); return 2; }
static int vc_prf_span(const char *f, size_t fl, int w, int prec, const char *p)
{ char t[VC_TMAX]; (void) w; size_t L = vc_span_text(f, fl, prec, p, t, VC_TMAX); vc_prf_emit(t, L); return (int) L; }

#define VC_SNP_SEL(_1, _2, _3, _4, _5, _6, NAME, ...) NAME
#define VC_SNP3(s, n, f)            vc_snp_lit(s, n, f, sizeof(f) - 1)
#define VC_SNP4(s, n, f, a)         _Generic((a), const char *: vc_snp_str, char *: vc_snp_str, double: vc_snp_dbl, \
                                             int64_t: vc_snp_i64, default: vc_snp_hex)(s, n, f, a)
#define VC_SNP6(s, n, f, w, p, x)   vc_snp_span(s, n, f, sizeof(f) - 1, w, p, x)
#define snprintf(...) VC_SNP_SEL(__VA_ARGS__, VC_SNP6, VC_BAD_SNPRINTF_ARITY, VC_SNP4, VC_SNP3, VC_BAD_SNPRINTF_ARITY, VC_BAD_SNPRINTF_ARITY)(__VA_ARGS__)

#define VC_PRF_SEL(_1, _2, _3, _4, NAME, ...) NAME
#define VC_PRF1(f)                  vc_prf_lit(f, sizeof(f) - 1)
#define VC_PRF2(f, a)               _Generic((a), const char *: vc_prf_str, char *: vc_prf_str, double: vc_prf_dbl, \
                                             int64_t: vc_prf_i64, default: vc_prf_hex)(f, a)
#define VC_PRF4(f, w, p, x)         vc_prf_span(f, sizeof(f) - 1, w, p, x)
#define printf(...) VC_PRF_SEL(__VA_ARGS__, VC_PRF4, VC_BAD_PRINTF_ARITY, VC_PRF2, VC_PRF1)(__VA_ARGS__)
#endif
