"""Core of the /verif check runner: build, instrument, run CBMC, parse, cache.

Engines
  E1  DFCC function contracts: goto-cc -> goto-instrument --dfcc ... -> cbmc
  E2  legacy loop contracts (for _advance_parsing): goto-cc -> goto-instrument
      --apply-loop-contracts -> cbmc, function contract asserted by a harness
  E3  bounded stand-in: goto-cc -> cbmc --unwind N --unwinding-assertions
  E4  static facts read off the goto binary (handled in vlib/static.py)
Exit-code policy lives in the caller: a job result is one of
  'pass' (all obligations SUCCESS), 'fail' (some FAILURE), 'undecided'
  (timeout, out of memory, tool error, zero obligations).
"""
import hashlib
import json
import os
import re
import resource
import shutil
import subprocess
import sys
import time
import fcntl

VERIF = os.path.dirname(os.path.dirname(os.path.abspath(__file__)))
REPO = os.environ.get("VERIF_REPO", "/repo")
WORK = os.path.join(VERIF, ".work") if REPO == "/repo" else os.path.join(VERIF, ".work", "alt_" + hashlib.sha256(REPO.encode()).hexdigest()[:8])
CACHE = os.path.join(VERIF, ".cache")
GUARD = "BINSON_C_LIGHT_VERIF"

_cbmc_version = None


def cbmc_version():
    global _cbmc_version
    if _cbmc_version is None:
        _cbmc_version = subprocess.run(["cbmc", "--version"], capture_output=True, text=True).stdout.strip()
    return _cbmc_version


class Job:
    def __init__(self, name, engine, harness, entry, props, enforce=None, replace=(), defs=(),
                 loop_contracts=False, cbmc_args=(), timeout=600, mem_gb=6, tier="quick",
                 unwindset=None, note="", expect_fail=(), nondet_static=False, gi_args=(), part=None, cc_args=(), portfolio=False, witness_defs=(), mem_gate=None):
        self.name = name
        self.engine = engine
        self.harness = harness          # path relative to VERIF
        self.entry = entry
        self.props = props              # {pid: '*' | [tags]}  ('*' = every obligation of the job)
        self.enforce = enforce
        self.replace = list(replace)
        self.defs = list(defs)
        self.loop_contracts = loop_contracts
        self.cbmc_args = list(cbmc_args)
        self.timeout = timeout
        self.mem_gb = mem_gb
        self.tier = tier                # 'quick' jobs run in both tiers
        self.unwindset = unwindset
        self.note = note
        self.expect_fail = list(expect_fail)   # tags of must-fail (vacuity) obligations
        self.gi_args = list(gi_args)
        self.cc_args = list(cc_args)
        self.portfolio = portfolio
        self.witness_defs = list(witness_defs)
        self.mem_gate = mem_gate if mem_gate is not None else mem_gb    # what the scheduler reserves (measured peak), mem_gb is the hard limit
        self.part = part                # (i, n): this job checks the i-th of n shares of the obligations

    def workdir(self):
        # one directory per job AND per process: two check commands running at the same time (different
        # properties sharing a job) must not build into the same directory
        base = re.sub(r"[^A-Za-z0-9_.-]", "_", self.name)
        d = os.path.join(WORK, base if os.environ.get("VERIF_KEEP_WORK") else "%s.%d" % (base, os.getpid()))
        os.makedirs(d, exist_ok=True)
        return d

    def cleanup(self):
        if not os.environ.get("VERIF_KEEP_WORK"):
            shutil.rmtree(self.workdir(), ignore_errors=True)


def _limits(mem_gb):
    def f():
        lim = int(mem_gb * (1 << 30))
        resource.setrlimit(resource.RLIMIT_AS, (lim, lim))
        os.setsid()
        try:
            # die with the runner: if the check command itself is killed (e.g. by an outer time box) no solver is left behind
            import ctypes
            ctypes.CDLL("libc.so.6", use_errno=True).prctl(1, 9)      # PR_SET_PDEATHSIG, SIGKILL
        except Exception:
            pass
    return f


def run_portfolio(cmds, timeout, mem_gb, stdout_paths):
    """Start all commands; the first one that ends with a verdict (rc 0 or 10) wins, the others are killed.
    Returns (index, rc, secs, timed_out)."""
    t0 = time.time()
    procs = []
    for cmd, outp in zip(cmds, stdout_paths):
        f = open(outp, "w")
        procs.append((subprocess.Popen(cmd, stdout=f, stderr=subprocess.DEVNULL, preexec_fn=_limits(mem_gb)), f))
    winner, rc = None, None
    try:
        while time.time() - t0 < timeout:
            alive = 0
            for i, (p, f) in enumerate(procs):
                r = p.poll()
                if r is None:
                    alive += 1
                elif r in (0, 10) and winner is None:
                    winner, rc = i, r
            if winner is not None or alive == 0:
                break
            time.sleep(0.5)
    finally:
        for p, f in procs:
            if p.poll() is None:
                try:
                    os.killpg(p.pid, 9)
                except Exception:
                    p.kill()
            p.wait()
            f.close()
    if winner is None:
        timed_out = (time.time() - t0) >= timeout
        return 0, procs[0][0].returncode, time.time() - t0, timed_out
    return winner, rc, time.time() - t0, False


def run_cmd(cmd, timeout, mem_gb, cwd=None, stdout_path=None):
    """Run a command under a time and address-space limit. Returns (rc, out, err, secs, timed_out)."""
    t0 = time.time()
    out_f = open(stdout_path, "w") if stdout_path else subprocess.PIPE
    try:
        p = subprocess.Popen(cmd, stdout=out_f, stderr=subprocess.PIPE, cwd=cwd, text=True,
                             preexec_fn=_limits(mem_gb))
        try:
            out, err = p.communicate(timeout=timeout)
            to = False
        except subprocess.TimeoutExpired:
            try:
                os.killpg(p.pid, 9)
            except Exception:
                p.kill()
            out, err = p.communicate()
            to = True
    finally:
        if stdout_path:
            out_f.close()
    if stdout_path:
        out = None
    return p.returncode, out, err, time.time() - t0, to


def sha_file(path, h=None):
    h = h or hashlib.sha256()
    with open(path, "rb") as f:
        for blk in iter(lambda: f.read(1 << 20), b""):
            h.update(blk)
    return h


SRC_FILES = ["src/binson_parser.c", "src/binson_writer.c", "include/binson_verif.h",
             "include/binson_parser.h", "include/binson_writer.h", "include/binson_defines.h"]


def load_tags():
    """Map (basename, line) of every VC_ENSURES / tagged assertion to its /*@ tag */.

    A tag belongs to the clause that starts on or before the line of the tag comment."""
    tags = {}
    paths = [os.path.join(REPO, f) for f in SRC_FILES]
    for root in ("contracts", "bounded", "stubs", "spec"):
        d = os.path.join(VERIF, root)
        if os.path.isdir(d):
            for fn in sorted(os.listdir(d)):
                if fn.endswith((".c", ".h")):
                    paths.append(os.path.join(d, fn))
    for path in paths:
        if not os.path.exists(path):
            continue
        base = os.path.basename(path)
        start = None
        with open(path, errors="replace") as f:
            for i, line in enumerate(f, 1):
                if re.match(r"\s*(VC_[A-Z_]+|__CPROVER_assert|VC_ASSERT|__CPROVER_ensures|__CPROVER_requires)\s*\(", line):
                    start = i
                m = re.search(r"/\*@\s*([A-Za-z0-9_.:/\-\[\]]+)\s*\*/", line)
                if m:
                    s = start if start is not None else i
                    for k in range(s, i + 1):
                        tags.setdefault((base, k), m.group(1))
                    start = None
    return tags


def build_job(job, log):
    """goto-cc + goto-instrument. Returns path of the final goto binary, or raises RuntimeError."""
    wd = job.workdir()
    a = os.path.join(wd, "a.gb")
    b = os.path.join(wd, "b.gb")
    for p in (a, b):
        if os.path.exists(p):
            os.remove(p)
    cc = ["goto-cc", "-D" + GUARD, "-I" + os.path.join(REPO, "include"), "-I" + os.path.join(REPO, "src"),
          "-I" + os.path.join(VERIF, "contracts"), "-I" + os.path.join(VERIF, "stubs"),
          "-I" + os.path.join(VERIF, "spec"), "-I" + os.path.join(VERIF, "bounded")]
    cc += ["-D" + d for d in job.defs]
    cc += job.cc_args
    cc += [os.path.join(VERIF, job.harness), "--function", job.entry, "-o", a]
    rc, out, err, secs, to = run_cmd(cc, 120, 4)
    log.append({"step": "goto-cc", "cmd": " ".join(cc), "rc": rc, "secs": round(secs, 2), "stderr": (err or "")[-4000:]})
    if rc != 0 or to:
        raise RuntimeError("goto-cc failed: " + (err or "")[-2000:])
    if job.engine == "E1":
        gi = ["goto-instrument", "--dfcc", job.entry]
        if job.enforce:
            gi += ["--enforce-contract", job.enforce]
        callees = None
        if job.replace:
            rc0, cg, err0, s0, to0 = run_cmd(["goto-instrument", "--call-graph", a], 120, 4)
            if rc0 == 0 and cg:
                callees = {m.group(1) for m in re.finditer(r"^\S+ -> (\S+)$", cg, re.M)}
        for r in job.replace:
            if callees is not None and r not in callees:
                # the (changed) code no longer calls this function at all: nothing to replace
                log.append({"step": "note", "cmd": "callee %s does not occur in the goto binary; not replaced" % r, "rc": 0, "secs": 0, "stderr": ""})
                continue
            gi += ["--replace-call-with-contract", r]
        if job.loop_contracts:
            gi += ["--apply-loop-contracts"]
        gi += job.gi_args + [a, b]
        rc, out, err, secs, to = run_cmd(gi, 600, 8)
        log.append({"step": "goto-instrument", "cmd": " ".join(gi), "rc": rc, "secs": round(secs, 2),
                    "stderr": ((out or "") + (err or ""))[-4000:]})
        if rc != 0 or to:
            raise RuntimeError("goto-instrument failed: " + ((out or "") + (err or ""))[-2000:])
        return b
    if job.engine == "E2":
        cur = a
        steps = []
        steps.append(["goto-instrument", "--add-library", cur, os.path.join(wd, "a1.gb")])
        cur = os.path.join(wd, "a1.gb")
        if job.unwindset:
            steps.append(["goto-instrument", "--unwindset", job.unwindset, "--unwinding-assertions", cur,
                          os.path.join(wd, "a2.gb")])
            cur = os.path.join(wd, "a2.gb")
        steps.append(["goto-instrument", "--apply-loop-contracts"] + job.gi_args + [cur, b])
        for gi in steps:
            rc, out, err, secs, to = run_cmd(gi, 600, 8)
            log.append({"step": "goto-instrument", "cmd": " ".join(gi), "rc": rc, "secs": round(secs, 2),
                        "stderr": ((out or "") + (err or ""))[-4000:]})
            if rc != 0 or to:
                raise RuntimeError("goto-instrument failed: " + ((out or "") + (err or ""))[-2000:])
        return b
    return a


def parse_cbmc_json(path):
    """Returns (results, verdict_text, messages). results: list of dicts."""
    with open(path, errors="replace") as f:
        txt = f.read()
    try:
        data = json.loads(txt)
    except Exception:
        # truncated output (killed): try to salvage nothing
        return None, None, txt[-3000:]
    results = None
    verdict = None
    msgs = []
    for el in data:
        if isinstance(el, dict):
            if "result" in el:
                results = el["result"]
            if "cProverStatus" in el:
                verdict = el["cProverStatus"]
            if "messageText" in el:
                msgs.append(el["messageText"])
    return results, verdict, "\n".join(msgs)


def run_job(job, use_cache=True):
    try:
        return _run_job(job, use_cache)
    finally:
        job.cleanup()


def _run_job(job, use_cache=True):
    """Build and run one job. Returns a result dict (JSON-serialisable)."""
    t0 = time.time()
    log = []
    res = {"job": job.name, "engine": job.engine, "entry": job.entry, "enforce": job.enforce,
           "replace": job.replace, "note": job.note, "cache": False}
    try:
        binary = build_job(job, log)
    except RuntimeError as e:
        res.update({"status": "undecided", "reason": "build: " + str(e)[-1500:], "log": log,
                    "wall_s": round(time.time() - t0, 2), "obligations": [], "n": 0, "n_ok": 0})
        return res
    cb = ["cbmc", binary, "--json-ui", "--verbosity", "8"] + ([] if "--object-bits" in job.cbmc_args else ["--object-bits", "10"]) + job.cbmc_args
    if job.part:
        try:
            vac, names = list_properties(binary, job)
        except Exception as e:
            res.update({"status": "undecided", "reason": "show-properties failed: %r" % (e,), "log": log,
                        "wall_s": round(time.time() - t0, 2), "obligations": [], "n": 0, "n_ok": 0})
            return res
        i, n = job.part
        mine = names[i::n] + (vac if i == 0 else [])    # vacuity controls go to share 0
        res["part"] = {"index": i, "of": n, "properties_total": len(names), "properties_in_part": len(mine)}
        if not mine:
            res.update({"status": "undecided", "reason": "empty share of obligations", "log": log,
                        "wall_s": round(time.time() - t0, 2), "obligations": [], "n": 0, "n_ok": 0})
            return res
        for nm in mine:
            cb += ["--property", nm]
    h = sha_file(binary)
    h.update(("\0".join(cb[2:]) + cbmc_version()).encode())
    key = h.hexdigest()
    res["key"] = key
    res["cbmc_cmd"] = " ".join(cb)
    res["build_log"] = log
    os.makedirs(CACHE, exist_ok=True)
    cpath = os.path.join(CACHE, key + ".json")
    lock = open(os.path.join(CACHE, key + ".lock"), "w")
    fcntl.flock(lock, fcntl.LOCK_EX)
    try:
        if use_cache and os.path.exists(cpath):
            try:
                with open(cpath) as f:
                    c = json.load(f)
                c["cache"] = True
                c["job"] = job.name
                c["wall_s"] = round(time.time() - t0, 2)
                return c
            except Exception:
                pass
        outp = os.path.join(job.workdir(), "cbmc.json")
        # solver ladder: the default SAT back end (minisat2) first; if it does not finish within the
        # first time box, the same instance again with cadical (measured: instances on which one of
        # the two needs > 15 min are solved by the other in < 1 min). Both are complete decision
        # procedures for the same formula, so whichever answers first decides.
        first_box = job.timeout if job.engine not in ("E1",) else min(job.timeout, max(240, job.timeout // 4))
        err = ""
        if getattr(job, "portfolio", False):
            # portfolio: minisat2 and cadical on the same instance at the same time, first verdict wins
            outp2 = os.path.join(job.workdir(), "cbmc_cadical.json")
            w, rc, secs, to = run_portfolio([cb, cb + ["--sat-solver", "cadical"]], job.timeout, job.mem_gb, [outp, outp2])
            res["backend"] = "portfolio minisat2|cadical, answered by " + ("minisat2", "cadical")[w]
            if w == 1:
                os.replace(outp2, outp)
                res["cbmc_cmd"] = " ".join(cb + ["--sat-solver", "cadical"])
            out = None
            first_box = job.timeout
        else:
            rc, out, err, secs, to = run_cmd(cb, first_box, job.mem_gb, stdout_path=outp)
            res["backend"] = "minisat2"
        if to and first_box < job.timeout:
            cb2 = cb + ["--sat-solver", "cadical"]
            res["cbmc_cmd"] = " ".join(cb2)
            res["backend"] = "cadical (after minisat2 exceeded %ds)" % first_box
            rc, out, err, secs2, to = run_cmd(cb2, job.timeout, job.mem_gb, stdout_path=outp)
            secs += secs2
        if (not to) and rc not in (0, 10) and getattr(job, "witness_defs", None):
            # the full-size run died (typically: out of memory while CBMC builds the counterexample of a failed obligation
            # over 2^32-byte buffers). Same harness again with the size restriction of the witness pass: a FAILURE there is
            # a genuine counterexample (the restriction only shrinks the input space); a pass there decides nothing.
            try:
                import copy
                wj = copy.copy(job)
                wj.name = job.name + "/small-sizes"
                wj.defs = list(job.defs) + list(job.witness_defs)
                wbin = build_job(wj, [])
                cbw = [wbin if c == binary else c for c in cb]
                rc2, out2, err2, secs2, to2 = run_cmd(cbw, job.timeout, job.mem_gb, stdout_path=outp)
                secs += secs2
                if (not to2) and rc2 == 10:
                    rc, to = rc2, to2
                    res["restricted_to_small_sizes"] = True
                    res["cbmc_cmd"] = " ".join(cbw) + "   # after the full-size run ended with rc=6"
                    binary = wbin
            except RuntimeError:
                pass
        res["solver_s"] = round(secs, 2)
        res["cbmc_rc"] = rc
        results, verdict, msgs = (None, None, "")
        if not to:
            results, verdict, msgs = parse_cbmc_json(outp)
        res["messages_tail"] = (msgs or "")[-1500:]
        st = {}
        m = re.search(r"size of program expression: (\d+) steps", msgs or "")
        if m:
            st["symex_steps"] = int(m.group(1))
        m = re.search(r"Generated (\d+) VCC\(s\), (\d+) remaining", msgs or "")
        if m:
            st["vccs"] = int(m.group(1))
        mm = re.findall(r"(\d+) variables, (\d+) clauses", msgs or "")
        if mm:
            st["sat_variables"] = max(int(a) for a, b in mm)
            st["sat_clauses"] = max(int(b) for a, b in mm)
        res["stats"] = st
        warn = [l for l in (msgs or "").splitlines()
                if re.search(r"ignoring|no body for function|does not have a contract", l)]
        res["warnings"] = warn[:20]
        if to:
            res.update({"status": "undecided", "reason": "timeout after %ds" % job.timeout})
        elif rc not in (0, 10) or "Out of memory" in (msgs or "") or "out of memory" in (msgs or ""):
            res.update({"status": "undecided", "reason": "cbmc rc=%s (not a verdict): %s" % (rc, (msgs or "")[-300:])})
        elif results is None:
            why = "out of memory / killed" if rc in (-9, 137, -6, 134, 6) or "bad_alloc" in (err or "") else "tool error rc=%s" % rc
            res.update({"status": "undecided", "reason": why + ": " + (err or "")[-500:] + (msgs or "")[-500:]})
        else:
            obl = []
            for r in results:
                sl = r.get("sourceLocation", {})
                o = {"id": r.get("property"), "desc": r.get("description"), "status": r.get("status"),
                     "file": os.path.basename(sl.get("file", "")), "line": int(sl.get("line", 0) or 0),
                     "function": sl.get("function", "")}
                obl.append(o)
            real_fail = [o for o in obl if o["status"] == "FAILURE" and not (o["desc"] or "").startswith("vacuity control")]
            if real_fail:
                add_traces(job, binary, cb, real_fail[:3], res)
            res["obligations"] = obl
            res["n"] = len(obl)
            res["n_ok"] = sum(1 for o in obl if o["status"] == "SUCCESS")
            if len(obl) == 0:
                res.update({"status": "undecided", "reason": "zero obligations generated"})
            elif any(o["status"] not in ("SUCCESS", "FAILURE") for o in obl):
                res.update({"status": "undecided", "reason": "obligation with status other than SUCCESS/FAILURE"})
            else:
                # must-fail vacuity controls are expected to fail: they do not make a run "fail"
                res["status"] = "fail" if real_fail else "pass"
        res["wall_s"] = round(time.time() - t0, 2)
        res.setdefault("obligations", [])
        res.setdefault("n", 0)
        res.setdefault("n_ok", 0)
        if res["status"] in ("pass", "fail"):
            with open(cpath + ".tmp", "w") as f:
                json.dump(res, f)
            os.replace(cpath + ".tmp", cpath)
        return res
    finally:
        fcntl.flock(lock, fcntl.LOCK_UN)
        lock.close()


def list_properties(binary, job):
    """Names of all obligations of a goto binary, in CBMC's order (vacuity controls first in the list)."""
    cmd = ["cbmc", binary, "--show-properties", "--json-ui"] + ([] if "--object-bits" in job.cbmc_args else ["--object-bits", "10"]) + job.cbmc_args
    rc, out, err, secs, to = run_cmd(cmd, 600, 8)
    names = []
    vac = []
    for el in json.loads(out):
        if isinstance(el, dict) and "properties" in el:
            for p in el["properties"]:
                if (p.get("description") or "").startswith("vacuity control"):
                    vac.append(p["name"])
                else:
                    names.append(p["name"])
    return vac, names


def add_traces(job, binary, cb, failed, res):
    """Second pass, only when something failed: ask CBMC for the counterexample of up to three failed obligations."""
    wbin = None
    if getattr(job, "witness_defs", None):
        # rebuild the same harness with the witness-size restriction: a counterexample small enough to replay natively
        import copy
        wj = copy.copy(job)
        wj.name = job.name + "/witness"
        wj.defs = list(job.defs) + list(job.witness_defs)
        try:
            wbin = build_job(wj, [])
        except RuntimeError:
            wbin = None
    for o in failed:
        outp = os.path.join(job.workdir(), "trace.json")
        # no formula slicing in the trace pass: slicing drops the (irrelevant to the obligation) copies of the inputs
        cmd = [c for c in cb if c not in ("--json-ui", "--slice-formula")] + ["--json-ui", "--trace", "--property", o["id"]]
        if wbin:
            cmd = [wbin if c == binary else c for c in cmd]
        rc, out, err, secs, to = run_cmd(cmd, min(job.timeout, 900), job.mem_gb, stdout_path=outp)
        if to:
            continue
        try:
            results, verdict, msgs = parse_cbmc_json(outp)
            for r in results or []:
                if r.get("property") == o["id"] and "trace" in r:
                    o["trace"] = compact_trace(r["trace"])
        except Exception:
            pass


def compact_trace(trace):
    """Keep the assignments of a CBMC json trace that matter for a replay: inputs and struct fields."""
    out = []
    for st in trace:
        if st.get("stepType") != "assignment":
            continue
        if st.get("hidden"):
            continue
        lhs = st.get("lhs", "")
        if lhs.startswith("__CPROVER") and "nondet" not in lhs:
            continue
        v = st.get("value", {})
        val = v.get("data", v.get("name"))
        if val is None and "elements" in v:
            val = "<array>"
        if val is None and "members" in v:
            val = "<struct>"
        sl = st.get("sourceLocation", {})
        out.append({"lhs": lhs, "value": val, "bin": v.get("binary"), "fn": sl.get("function"), "line": sl.get("line")})
    keep = [t for t in out if (t["lhs"] or "").startswith(("vc_wit", "nm["))]
    tail = out[-250:]
    return [t for t in keep if t not in tail] + tail
