"""Static metadata per property: claimed level, assumptions, trusted base, MANIFEST texts."""

TRUSTED_BASE = [
    "CBMC 6.11.0: goto-cc, goto-instrument (DFCC contract instrumentation; legacy --apply-loop-contracts), symbolic execution, SAT back end minisat2",
    "CBMC's C memory model, LP64 (x86_64); --object-bits 10",
    "CBMC built-in models of memmove/memset(constant size)/memcpy; assumed contracts (verif/stubs/vc_libc.h) for memcmp, strlen, memset of symbolic size, snprintf/printf",
    "harness-built caller objects (typed heap blocks of exactly the stated sizes) stand for 'valid separate caller objects'",
]

COMMON_ASSUMPTIONS = [
    "machine arithmetic is bit-precise (not mathematical); data model LP64 only (no 32-bit libc headers in the image: ILP32 not checked)",
    "implementation-defined conversions as gcc/clang define them (out-of-range unsigned->signed wraps); --conversion-check is off for that reason",
    "induction over call sequences (the class invariant holds before every call of any sequence that starts with an init on valid pointers) is a paper argument over the per-function proofs",
    "buffers are at most 2^32 bytes (VC_MAX_BUF); pointers passed by the caller are valid and separate",
    "callers of _advance_parsing are proved against its in-source contract (--replace-call-with-contract); that contract is checked on the real body by the E2 jobs for max_depth in the enumerated set only (quick: {1}, thorough: {1,2,3}) and is an assumption for other values",
    "the all-levels part of the class invariant (VC_LEVEL_FACTS) is carried by E2 and by the static fact that only _advance_parsing and binson_parser_reset write the state array",
    "memcmp(a, b, 0) touches nothing (true of every libc; formally unspecified for invalid pointers)",
]

BOUNDED_NOTE = ("bounded stand-in: CBMC --unwind N+2 --unwinding-assertions from init on ALL inputs up to the stated bound; "
                "says nothing beyond the bound; the executable specification verif/spec/ref_binson.h is the trusted oracle "
                "(cross-checked against the shipped corpus and 4M random inputs during development)")

PROPS = {}


def P(pid, level, text, note, technique, design, **kw):
    d = {"level": level, "text": text, "note": note, "technique": technique, "design": design}
    d.update(kw)
    PROPS[pid] = d


P("C01", "proof",
  "Every parser function is proved (CBMC code contracts, all inputs, no unwinding bound) to preserve the class invariant, to dereference only the parser object, its state array of exactly max_depth entries and the input buffer of exactly buffer_size bytes, to write only inside its assigns clause (parser fields + state array), and to hand back only spans inside the buffer; init/reset establish the invariant from arbitrary struct contents, including when they reject the buffer. The token loop _advance_parsing is proved with an inductive loop invariant for max_depth in an enumerated set.",
  "max_depth enumerated for _advance_parsing (quick {1}, thorough {1,2,3}) and for leave_*/get_raw ({1,3}; get_raw in the quick tier only under C11); binson_parser_field_with_length is the one API function whose body is not under an enforced contract (its DFCC run does not finish; its callers use its contract, everything it calls is proved, bounded and pinned lookup runs cover it); assumed libc contracts; see assumptions in the evidence file",
  "CBMC function contracts (DFCC) + loop contracts on the real source", "5/C01")
P("C02", "model_checking",
  "Local rules proved for all inputs by contract (_parse_integer shortest form, _process_one token grammar incl. length range/fit, reset first/last byte, _cmp_name order); the language-level 'iff' is decided BOUNDED: init+verify agrees with an independent executable recogniser on all byte strings of exactly N bytes (quick N<=7, thorough N<=9), both roots, max_depth 1..3, including the MAX_DEPTH error codes.",
  BOUNDED_NOTE, "contract proofs of the token rules + CBMC bounded equivalence with a reference recogniser", "5/C02",
  bounded={"max_bytes_quick": 7, "max_bytes_thorough": 9, "max_depth": [1, 2, 3], "roots": ["object", "array"]})
P("C03", "proof",
  "Per-token decode is proved for all inputs: sign extension of all four widths for all bit patterns (_parse_integer), exact token extents and payload spans (_process_one), getter gating and neutrality, double bit-identity through the getter, string_equals iff (relative to the memcmp/strlen contracts). The composition 'next reports the element the bytes encode' is additionally checked bounded against the reference cursor.",
  "composition over a traversal is bounded (see C06); memcmp/strlen contracts assumed", "CBMC function contracts on decode path + bounded traversal vs reference cursor", "5/C03")
P("C04", "proof",
  "_write, _write_token and every binson_write_* are proved for all capacities (0, NULL included), all counters and all lengths up to 2^32: the frame is exactly the len bytes behind the counter and only when no error is latched and the piece fits (so nothing is stored at or beyond capacity, nothing before the counter, nothing after an error); counter' = counter + exact encoded size always; RANGE iff the piece does not fit.",
  "sequence-level statements (counter = sum, prefix, rerun fits) follow from the per-call clauses by summation over the call sequence (paper step); no counter wrap assumed; lengths > INT32_MAX are rejected with FORMAT (outside the RANGE-iff clause)",
  "CBMC function contracts (DFCC) with conditional assigns clauses", "5/C04")
P("C05", "proof",
  "_int_pack_size is proved to choose the unique shortest width for every int64 and to lay the bytes little-endian; every write function is proved to append exactly type byte + canonical length/integer bytes + verbatim payload (ghost byte index, all values); doubles as their 8 IEEE-754 bytes.",
  "document-level acceptance by verify is covered only through C02's bounded check and the token contracts (composition on paper)", "CBMC function contracts: encoder equals a byte-level specification", "5/C05")
P("C06", "model_checking",
  "BOUNDED: for enumerated call sequences, on all valid documents of exactly N bytes on which the sequence is protocol-following, every return value, get_depth, get_type, get_name and typed getter equals the reference cursor and no error is raised. Structural facts (invariant, latching, cursor monotone) are proved unbounded (E1/E2).",
  BOUNDED_NOTE + "; histories that enter the listed known finding C06-array-toggle-parity are not compared further (the pinned run reports it)",
  "CBMC bounded check of the real parser against a reference cursor, one run per call sequence", "5/C06",
  bounded={"max_bytes_quick": 7, "max_bytes_thorough": 9, "max_calls": 7, "max_depth": 3})
P("C07", "model_checking",
  "Mechanisms proved unbounded: _cmp_name is the bytewise three-way compare (relative to the memcmp contract, unsigned bytes, prefix rule), the lookup wrappers (field, field_ensure*) preserve the invariant and latch against the contract of field_with_length, _ensure variants return true only on matching type, an overshooting lookup rewinds exactly (step contract), a failed next/lookup scan is at the depth it started (E2). 'Finds exactly the present names / never loses later fields' is BOUNDED against the reference cursor on all valid objects of N bytes for enumerated lookup sequences.",
  BOUNDED_NOTE, "contracts on compare/lookup + CBMC bounded check vs reference cursor", "5/C07",
  bounded={"max_bytes_quick": 7, "max_bytes_thorough": 9, "names": "1-2 symbolic bytes"})
P("C08", "model_checking",
  "BOUNDED: (a) valid document and protocol-following sequence => every call succeeds without error (nav runs); (b) verify-iff-ref on all byte strings. The shared-loop facts (one loop for verify and navigation, per-token rules independent of scan flags) are carried by the contracts of _process_one and _advance_parsing.",
  BOUNDED_NOTE + "; the converse direction for arbitrary invalid bytes and arbitrary traversals is only covered through the shared per-token contract, not by an exhaustive traversal enumeration",
  "CBMC bounded traversal runs + contract of the shared token loop", "5/C08",
  bounded={"max_bytes_quick": 7, "max_bytes_thorough": 9})
P("C09", "proof",
  "Every advancing parser function is proved to return false and leave cursor, depth, current_state and the error code unchanged once an error is set; getters are proved neutral under any error; _advance_parsing returns true only without error; verify false always leaves a code. Writer: proved that an error is never cleared by a write, nothing is stored once set (frame), the counter keeps counting, return value == (error == NONE).",
  "only init/reset/verify clear an error (their contracts)", "CBMC function contracts (latching post-conditions)", "5/C09")
P("C10", "proof",
  "Per-token inverse facts proved for all values on the REAL encoder/decoder pair: parse(pack(v)) = v and accepted as shortest form for every int64, pack(parse(b)) = b for every shortest-form encoding, doubles bit-identical through decode + encode (complete CBMC runs, loops bounded by the operand width); every write function appends exactly type byte + canonical length + verbatim payload (contracts, ghost byte index); the decode path hands back exactly the sub-spans and values the bytes encode (_process_one contract, next-scalar step contract, E2). The document-level identity is the composition of these per-token facts over a traversal that visits every token once in order (C06).",
  "the induction over the token sequence is a paper step and relies on C06, which is decided only up to a bound; no whole-document transcription harness was built (the bounded run with a writer in the loop did not fit the memory box)",
  "round-trip lemmas on the real encoder/decoder + byte-level contracts on both sides", "5/C10")
P("C11", "model_checking",
  "Proved unbounded: get_raw on a non-container returns false and leaves the parser unchanged; on success the span starts at the cursor, ends at the new cursor and lies inside the buffer; write_raw appends exactly the given bytes. 'Span = BEGIN..matching END, cursor continues after it' is BOUNDED against the reference cursor.",
  BOUNDED_NOTE, "contracts on get_raw/write_raw + CBMC bounded check vs reference cursor", "5/C11",
  bounded={"max_bytes_quick": 7, "max_bytes_thorough": 9})
P("C12", "proof",
  "init, reset and a successful verify are proved to establish one fully specified state (every scalar field, every byte-level field of every state entry zero - ghost level index) from completely arbitrary struct and state-array contents; a rejected init/reset still defines depth and current_state; the token loop is proved to keep every unused level zeroed (level wiped when an object is left). Writer init/reset likewise.",
  "history independence of the remaining calls follows from their frames (they read only parser, state array, buffer) and from E4 (no static data); the two print wrappers (binson_parser_print, binson_parser_to_string) are proved to remove their callback and context on every path (complete, loop-free, under a summary of verify-in-print-mode whose induction over tokens is a paper step), so nothing of a rendering - failed or not - is carried into the next use of the parser object", "CBMC function contracts (canonical post-state from arbitrary pre-state)", "5/C12")
P("C13", "proof",
  "Per token (all ten token kinds, all capacities 0..2^32 incl. NULL, any fill level, payloads up to the INT_MAX rendering limit) _binson_to_string_cb is proved to store nothing outside the capacity (every byte snprintf writes is inside the destination), to advance buffer_used by exactly the sum of the would-be lengths (capacity independent) and to set buffer_full iff buffer_used + 1 > capacity; binson_parser_to_string is proved to install a context that meets the callback precondition (NULL => capacity 0), to return true iff verify accepted and the text + terminator fit, and to report *size = text length on success, text length + 1 otherwise.",
  "snprintf under the assumed C99 contract (writes min(n, L+1) bytes, returns the would-be length L independent of n); the accumulation over the tokens of a document is a paper induction over the per-token contract (the wrapper proof uses it as a summary of verify-in-print-mode); a single token rendering in more than INT_MAX characters is excluded by precondition (known int-overflow of the accounting, DESIGN.md 5/C13); the text content itself is not modelled",
  "CBMC function contract on the to_string callback + complete proof of the wrapper under a verify summary", "5/C13")
P("C16", "proof",
  "Every loop of the library carries a decreases clause that CBMC discharges: the token loop (remaining bytes + 1, for max_depth in the enumerated set), the integer width loops (bounded by type, unwinding assertions), the pack loop; no recursion (E4 call graph).",
  "the lookup loop of field_with_length has a loop invariant but no decreases clause yet: its termination is not claimed; libc functions terminate by assumption; linear-work accounting (callbacks per byte) not yet stated as a clause",
  "CBMC loop contracts with decreases clauses + acyclic call graph", "5/C16")
P("C17", "proof",
  "Static facts of the goto binary of the library (with and without BINSON_PARSER_WITH_PRINT): call graph acyclic with the callback pointer resolved, no allocator reachable, external callees within {memcmp,memmove,memset,strlen,snprintf,printf}, no writable static-lifetime object, no variably-sized local. Plus the assigns clauses of every function under contract: writes only into caller objects.",
  "source/goto level only: the per-compiler object-code facts (nm, -fstack-usage at -O0/-O2/-Os) are outside this technique and not claimed", "goto-program static facts + DFCC frame checks", "5/C17")
P("C18", "proof",
  "Sufficient condition: every function under contract is free of the undefined behaviours CBMC checks (bounds, invalid pointers, signed overflow, shifts, pointer overflow) and meets deterministic functional post-conditions stated on bytes (no host byte order, unsigned byte comparison), for all inputs.",
  "not the differential build experiment of the quantifier; LP64 only; strict aliasing and evaluation order are outside CBMC's checks; run under the default (signed) plain-char model, the unsigned-char model in the thorough tier",
  "absence of UB + byte-level functional contracts for all inputs", "5/C18")
