"""Static metadata per property: claimed level, assumptions, trusted base."""

TRUSTED_BASE = [
    "CBMC 6.11.0 (goto-cc, goto-instrument contract instrumentation, symbolic execution) and its SAT back end minisat2",
    "CBMC's C memory model on LP64 (x86_64 data model; objects < 2^54 bytes with --object-bits 10)",
    "CBMC built-in library models of memset/memmove/strlen (E1) ",
]

COMMON_ASSUMPTIONS = [
    "machine arithmetic is bit-precise (not mathematical); data model LP64 only (no 32-bit libc headers in the image, ILP32 not checked)",
    "implementation-defined conversions as gcc/clang define them (out-of-range unsigned->signed wraps); --conversion-check is off for that reason",
    "induction over call sequences (class invariant INV holds before every call of any sequence that starts with an init on valid pointers) is a paper argument over the per-function proofs",
    "buffers are at most 2^32 bytes (VC_MAX_BUF); pointers passed by the caller are valid and do not alias each other except as the API documents",
]

PROPS = {}


def P(pid, level, **kw):
    d = {"level": level}
    d.update(kw)
    PROPS[pid] = d


P("C01", "proof")
P("C02", "model_checking")
P("C03", "proof")
P("C04", "proof")
P("C05", "proof")
P("C06", "model_checking")
P("C07", "model_checking")
P("C08", "model_checking")
P("C09", "proof")
P("C10", "model_checking")
P("C11", "model_checking")
P("C12", "proof")
P("C13", "proof")
P("C14", "model_checking")
P("C16", "proof")
P("C17", "proof")
P("C18", "proof")
