"""E4: static facts read off the goto binary of the library (no harness), for C17.

  S/acyclic            the call graph (function pointers resolved to the library's callbacks) has no cycle
  S/no-allocator       no allocator is reachable; external callees are within the allowed libc set
  S/no-writable-static no static-lifetime object defined by the library that is not const
  S/no-vla             no local of variably-sized array type
Result has the same shape as a CBMC job result (obligations with SUCCESS/FAILURE)."""
import json
import os
import re
import time

from . import core

ALLOC = {"malloc", "calloc", "realloc", "free", "alloca", "__builtin_alloca", "aligned_alloc", "posix_memalign",
         "strdup", "strndup", "mmap", "sbrk", "brk", "valloc", "memalign"}
ALLOWED_EXTERN = {"memcmp", "memmove", "memset", "strlen", "snprintf", "printf", "memcpy"}


def _lib_source(with_print):
    d = os.path.join(core.WORK, "E4.%d" % os.getpid())
    os.makedirs(d, exist_ok=True)
    p = os.path.join(d, "lib.c")
    with open(p, "w") as f:
        f.write('#include "binson_parser.c"\n#include "binson_writer.c"\n')
    return d, p


def run_static(job):
    t0 = time.time()
    with_print = "BINSON_PARSER_WITH_PRINT" in job.defs
    d, src = _lib_source(with_print)
    tagp = "print" if with_print else "noprint"
    gb = os.path.join(d, "lib_%s.gb" % tagp)
    gb2 = os.path.join(d, "lib_%s_fp.gb" % tagp)
    res = {"job": job.name, "engine": "E4", "entry": None, "enforce": None, "replace": [], "note": job.note,
           "cache": False, "obligations": [], "n": 0, "n_ok": 0}
    cc = ["goto-cc"] + ["-D" + x for x in job.defs] + ["-I" + os.path.join(core.REPO, "include"),
                                                        "-I" + os.path.join(core.REPO, "src"), src, "-o", gb]
    rc, out, err, secs, to = core.run_cmd(cc, 120, 4)
    if rc != 0:
        res.update({"status": "undecided", "reason": "goto-cc failed: " + (err or "")[-800:], "wall_s": time.time() - t0})
        return res
    rc, out, err, secs, to = core.run_cmd(["goto-instrument", "--remove-function-pointers", gb, gb2], 120, 4)
    if rc != 0:
        res.update({"status": "undecided", "reason": "remove-function-pointers failed", "wall_s": time.time() - t0})
        return res
    rc, cg, err, secs, to = core.run_cmd(["goto-instrument", "--call-graph", gb2], 120, 4)
    edges = set()
    for line in (cg or "").splitlines():
        m = re.match(r"^(\S+) -> (\S+)$", line.strip())
        if m:
            edges.add((m.group(1), m.group(2)))
    rc, symj, err, secs, to = core.run_cmd(["goto-instrument", "--show-symbol-table", "--json-ui", gb], 120, 4)
    try:
        symtab = None
        for el in json.loads(symj):
            if isinstance(el, dict) and "symbolTable" in el:
                symtab = el["symbolTable"]
    except Exception:
        symtab = None
    if not edges or symtab is None:
        res.update({"status": "undecided", "reason": "could not read call graph / symbol table", "wall_s": time.time() - t0})
        return res

    def in_lib(sym):
        loc = sym.get("location", {})
        f = loc.get("file", "")
        return f.startswith(core.REPO + "/src") or f.startswith(core.REPO + "/include") or \
            os.path.basename(f) in ("binson_parser.c", "binson_writer.c", "binson_parser.h", "binson_writer.h",
                                    "binson_defines.h", "binson_verif.h")

    lib_funcs = {n for n, s in symtab.items() if s.get("type", {}).get("id") == "code" and in_lib(s)
                 and "::" not in n}
    # 1. acyclic
    graph = {}
    for a, b in edges:
        graph.setdefault(a, set()).add(b)
    cyc = find_cycle(graph)
    obl = []

    def add(tag, ok, desc):
        obl.append({"id": "S." + tag, "desc": desc, "status": "SUCCESS" if ok else "FAILURE",
                    "file": "static", "line": 0, "function": tag, "tag": "S/" + tag})

    add("acyclic", cyc is None, "call graph of the library is acyclic (%d edges)%s" % (
        len(edges), "" if cyc is None else "; cycle: " + " -> ".join(cyc)))
    # 2. allocators / externals
    callees = {b for a, b in edges}
    ext = sorted(c for c in callees if c not in lib_funcs and not c.startswith("__CPROVER"))
    bad_alloc = sorted(c for c in ext if c in ALLOC)
    add("no-allocator", not bad_alloc, "no allocator reachable from the library; external callees: %s%s" % (
        ext, "" if not bad_alloc else "; ALLOCATOR CALLED: %s" % bad_alloc))
    unknown = sorted(c for c in ext if c not in ALLOWED_EXTERN and c not in ALLOC)
    add("externals-allowed", not unknown, "external callees are within %s%s" % (
        sorted(ALLOWED_EXTERN), "" if not unknown else "; unexpected: %s" % unknown))
    # 3. statics
    bad_static = []
    for n, s in symtab.items():
        if not s.get("isStaticLifetime") or s.get("isType") or s.get("type", {}).get("id") == "code":
            continue
        if not in_lib(s):
            continue
        if n.startswith("__CPROVER") or s.get("isExtern"):
            continue
        ty = s.get("type", {})
        if "#constant" in ty.get("namedSub", {}):
            continue
        if ty.get("id") == "array" and "#constant" in (ty.get("sub") or [{}])[0].get("namedSub", {}):
            continue   # string literals / const tables
        bad_static.append(n)
    add("no-writable-static", not bad_static, "no writable static-lifetime object in the library%s" % (
        "" if not bad_static else "; found: %s" % bad_static))
    # 4. VLA / alloca
    vla = []
    for n, s in symtab.items():
        if not in_lib(s):
            continue
        ty = s.get("type", {})
        if ty.get("id") == "array":
            size = ty.get("namedSub", {}).get("size", {})
            if size.get("id") != "constant":
                vla.append(n)
    add("no-vla", not vla, "no variably-sized stack object in the library%s" % (
        "" if not vla else "; found: %s" % vla))
    res["obligations"] = obl
    res["n"] = len(obl)
    res["n_ok"] = sum(1 for o in obl if o["status"] == "SUCCESS")
    res["status"] = "pass" if res["n_ok"] == res["n"] else "fail"
    res["wall_s"] = round(time.time() - t0, 2)
    res["solver_s"] = 0.0
    res["cbmc_cmd"] = "goto-cc lib.c; goto-instrument --remove-function-pointers; --call-graph; --show-symbol-table"
    res["static_facts"] = {"functions": sorted(lib_funcs), "external_callees": ext, "edges": len(edges)}
    return res


def find_cycle(graph):
    WHITE, GREY, BLACK = 0, 1, 2
    color = {}
    stack = []

    def dfs(u):
        color[u] = GREY
        stack.append(u)
        for v in sorted(graph.get(u, ())):
            c = color.get(v, WHITE)
            if c == GREY:
                return stack[stack.index(v):] + [v]
            if c == WHITE:
                r = dfs(v)
                if r:
                    return r
        stack.pop()
        color[u] = BLACK
        return None

    for n in sorted(graph):
        if color.get(n, WHITE) == WHITE:
            r = dfs(n)
            if r:
                return r
    return None
