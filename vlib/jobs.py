"""Registry of verification jobs (one CBMC run each)."""
from .core import Job

HP = "contracts/h_parser.c"
HW = "contracts/h_writer.c"

_jobs = None


def all_jobs():
    global _jobs
    if _jobs is None:
        _jobs = build()
    return _jobs


def build():
    J = []

    def e1(fn, props, harness=HP, replace=(), unwind=None, loop=False, timeout=300, mem=8, tier="quick",
           defs=(), note="", name=None, extra=(), expect_fail=()):
        args = []
        if unwind:
            args += ["--unwind", str(unwind), "--unwinding-assertions"]
        args += list(extra)
        J.append(Job(name or ("E1/" + fn), "E1", harness, "h_" + fn, props, enforce=fn, replace=replace,
                     defs=["VC_HARNESS_OBJECTS"] + list(defs), loop_contracts=loop, cbmc_args=args, timeout=timeout, mem_gb=mem, tier=tier,
                     note=note, expect_fail=list(expect_fail) + ["vacuity", "vacuity-true", "vacuity-false"]))

    # ---- parser leaves
    e1("_check_boundary", {"C01": "*", "C02": "*", "C13": "*", "C18": "*", "C16": "*"})
    e1("_consume", {"C01": "*", "C02": "*", "C09": "*", "C18": "*", "C16": "*"})
    e1("_parse_integer", {"C02": "*", "C03": "*", "C05": "*", "C10": "*", "C18": "*", "C01": "*", "C16": "*"},
       unwind=9, note="width loop <= 8 iterations by type: --unwind 9 with unwinding assertions is complete")
    e1("binson_parser_reset", {"C01": "*", "C02": "*", "C12": "*", "C18": "*"}, timeout=600,
       defs=["VC_STUB_MEMSET"], replace=["vc_memset"],
       note="memset replaced by its assumed (typed) libc contract: CBMC's memset model is inexact for symbolic sizes")

    INITP = {"C01": "*", "C02": "*", "C12": "*", "C18": "*"}
    e1("_binson_parser_init", INITP, replace=["binson_parser_reset"])
    e1("binson_parser_init_object", INITP, replace=["_binson_parser_init"])
    e1("binson_parser_init_array", INITP, replace=["_binson_parser_init"])
    NAVP = {"C01": "*", "C06": "*", "C09": "*", "C16": "*", "C18": "*", "C08": "*"}
    for fn in ("binson_parser_next", "binson_parser_go_into_object", "binson_parser_go_into_array",
               "binson_parser_leave_object", "binson_parser_leave_array", "binson_parser_next_ensure"):
        e1(fn, NAVP if fn != "binson_parser_next_ensure" else dict(NAVP, C07="*"),
           replace=["_advance_parsing"] if fn != "binson_parser_next_ensure" else ["binson_parser_next"])
    e1("binson_parser_verify", {"C01": "*", "C02": "*", "C09": "*", "C12": "*", "C18": "*", "C08": "*"},
       replace=["binson_parser_reset", "_advance_parsing"])
    GETP = {"C01": "*", "C03": "*", "C09": "*", "C18": "*"}
    for fn in ("binson_parser_get_type", "binson_parser_get_name", "binson_parser_get_string_bbuf",
               "binson_parser_get_bytes_bbuf", "binson_parser_get_integer", "binson_parser_get_boolean",
               "binson_parser_get_double"):
        e1(fn, GETP)
    e1("binson_parser_get_depth", {"C01": "*", "C06": "*", "C12": "*", "C18": "*"})

    # ---- writer
    WP = {"C04": "*", "C05": "*", "C09": "*", "C10": "*", "C18": "*", "C16": "*"}
    e1("_write", WP, harness=HW)
    e1("_int_pack_size", {"C05": "*", "C10": "*", "C18": "*", "C04": "*", "C16": "*"}, harness=HW, unwind=9,
       note="pack loop <= 8 iterations by type: --unwind 9 with unwinding assertions is complete")

    e1("_write_token", WP, harness=HW, replace=["_write", "_int_pack_size"], timeout=900)
    for fn in ("binson_write_object_begin", "binson_write_object_end", "binson_write_array_begin",
               "binson_write_array_end", "binson_write_boolean"):
        e1(fn, WP, harness=HW, replace=["_write_token"])

    # ---- E2: _advance_parsing, loop closed by the in-source loop contract, max_depth enumerated
    ADV_PROPS = {"C01": "*", "C06": "*", "C07": "*", "C08": "*", "C09": "*", "C12": "*", "C16": "*", "C18": "*", "C02": "*"}
    for md, tmo, tier in ((1, 3600, "thorough"), (2, 7200, "thorough"), (3, 5400, "thorough"), (4, 14400, "thorough")):
        J.append(Job("E2/_advance_parsing/md=%d" % md, "E2", "contracts/h_adv.c", "h_adv", ADV_PROPS,
                     enforce="_advance_parsing", defs=["VC_MD=%d" % md],
                     cbmc_args=["--unwindset", "h_adv.0:%d" % (md + 1), "--unwinding-assertions"],
                     timeout=tmo, mem_gb=12, tier=tier,
                     expect_fail=["vacuity", "vacuity-true", "vacuity-false"],
                     note="legacy --apply-loop-contracts; function contract asserted by harness; max_depth=%d constant, all else symbolic" % md))
    return J
