"""Registry of verification jobs (one CBMC run each)."""
from .core import Job

HP = "contracts/h_parser.c"
HW = "contracts/h_writer.c"

_jobs = None


def all_jobs():
    global _jobs
    if _jobs is None:
        _jobs = build()
    return _jobs


def build():
    J = []

    # hard instances: minisat2 and cadical run side by side (measured: each is 3-5x faster than the other on some of them)
    PORTFOLIO = {"_binson_to_string_cb", "binson_parser_get_raw", "binson_parser_verify", "_process_one",
                 "binson_parser_leave_object", "binson_parser_leave_array"}

    def e1(fn, props, harness=HP, replace=(), unwind=None, loop=False, timeout=300, mem=8, tier="quick",
           defs=(), note="", name=None, extra=(), expect_fail=()):
        args = ["--slice-formula"]
        # every E1 run has an unwinding bound with unwinding assertions: the functions under contract have no open loops
        # (loops carry loop contracts or are bounded by the operand width), so on the unchanged tree this changes nothing;
        # a change that introduces a loop (e.g. strncmp instead of a contract-carrying callee) then fails an unwinding
        # assertion or a post-condition within the bound instead of running into the time box
        args += ["--unwind", str(unwind or 12), "--unwinding-assertions"]
        args += list(extra)
        J.append(Job(name or ("E1/" + fn), "E1", harness, "h_" + fn, props, enforce=fn, replace=replace,
                     defs=["VC_HARNESS_OBJECTS"] + list(defs), loop_contracts=loop, cbmc_args=args, timeout=timeout, mem_gb=mem, tier=tier,
                     note=note, expect_fail=list(expect_fail) + ["vacuity", "vacuity-true", "vacuity-false"],
                     portfolio=fn in PORTFOLIO, witness_defs=["VC_SMALL_WITNESS"] if (fn == "_cmp_name" or harness == HW) else []))

    import copy as _copy

    def also_thorough(name, props):
        """The same run again, for further properties, in the thorough tier only (same goto binary: a cache hit
        when the quick registration has run). Keeps every quick command within its time box."""
        for x in list(J):
            if x.name == name:
                y = _copy.copy(x)
                y.name = name + "/thorough-for-" + "-".join(sorted(props))
                y.props = dict(props)
                y.tier = "thorough"
                J.append(y)

    # ---- parser leaves
    e1("_check_boundary", {"C01": "*", "C02": "*", "C13": "*", "C18": "*", "C16": "*"})
    e1("_consume", {"C01": "*", "C02": "*", "C09": "*", "C18": "*", "C16": "*"})
    e1("_parse_integer", {"C02": "*", "C03": "*", "C05": "*", "C10": "*", "C18": "*", "C01": "*", "C16": "*"},
       unwind=9, note="width loop <= 8 iterations by type: --unwind 9 with unwinding assertions is complete")
    e1("_cmp_name", {"C02": "*", "C07": "*", "C18": "*", "C03": "*", "C01": "*", "C10": "*"}, defs=["VC_STUB_MEMCMP"], replace=["vc_memcmp"], unwind=9,
       note="memcmp replaced by its assumed C11 contract (unsigned bytes, first difference decides); --unwind only matters if a change introduces a loop")
    J.append(Job("E3/cmp_name-direct/len<=8", "E3", HP, "h__cmp_name_direct", {"C07": "*", "C02": "*", "C03": "*", "C10": "*", "C18": "*"},
                 defs=["VC_HARNESS_OBJECTS"], cbmc_args=["--unwind", "10", "--unwinding-assertions"], timeout=600, mem_gb=4,
                 note="BOUNDED: names of at most 8 bytes each, CBMC's built-in memcmp, compared with the bytewise definition"))
    e1("_process_one", {"C01": "*", "C02": "*", "C03": "*", "C08": "*", "C10": "*", "C16": "*", "C18": "*"}, unwind=9, timeout=900,
       note="_consume, _parse_integer, _check_boundary inlined (real bodies); integer loop <= 8 iterations")
    e1("binson_parser_reset", {"C01": "*", "C02": "*", "C12": "*", "C18": "*"}, timeout=600,
       defs=["VC_STUB_MEMSET"], replace=["vc_memset"],
       note="memset replaced by its assumed (typed) libc contract: CBMC's memset model is inexact for symbolic sizes")

    INITP = {"C01": "*", "C02": "*", "C12": "*", "C18": "*"}
    e1("_binson_parser_init", INITP, replace=["binson_parser_reset"])
    e1("binson_parser_init_object", INITP, replace=["_binson_parser_init"])
    e1("binson_parser_init_array", INITP, replace=["_binson_parser_init"])
    NAVP = {"C01": "*", "C06": "*", "C09": "*", "C16": "*", "C18": "*", "C08": "*"}
    for fn in ("binson_parser_next", "binson_parser_go_into_object", "binson_parser_go_into_array"):
        e1(fn, NAVP, replace=["_advance_parsing"])
    e1("binson_parser_next_ensure", dict(NAVP, C07="*"), replace=["binson_parser_next"])
    # these index the state array themselves (or call the loop twice): with a symbolic max_depth the
    # state array is a byte array of symbolic size and CBMC needs > 8 GB; max_depth is enumerated instead
    for fn in ("binson_parser_leave_object", "binson_parser_leave_array"):
        for md in (1, 3):
            e1(fn, NAVP, replace=["_advance_parsing"], defs=["VC_H_MD=%d" % md], name="E1/%s/md=%d" % (fn, md), timeout=900,
               note="max_depth fixed to %d in this run (state array typed): enumerated, not symbolic" % md)
    e1("binson_parser_verify", {"C01": "*", "C02": "*", "C09": "*", "C12": "*", "C18": "*", "C08": "*"},
       replace=["binson_parser_reset", "_advance_parsing"])
    GETP = {"C01": "*", "C03": "*", "C09": "*", "C18": "*"}
    for fn in ("binson_parser_get_type", "binson_parser_get_name", "binson_parser_get_string_bbuf",
               "binson_parser_get_bytes_bbuf", "binson_parser_get_integer", "binson_parser_get_boolean",
               "binson_parser_get_double"):
        e1(fn, GETP)
    LKP = {"C01": "*", "C07": "*", "C09": "*", "C18": "*", "C08": "*"}
    # binson_parser_field_with_length itself is NOT under an enforced contract: the DFCC run (loop contract + two replaced
    # calls) did not finish in 25 min / 8 GB even with max_depth fixed to 1. Its callers are proved against its
    # in-source contract; the function is covered by the bounded and pinned lookup runs and, for everything it calls,
    # by the contracts of _advance_parsing and _cmp_name (DESIGN.md 10.3).
    e1("binson_parser_field", LKP, defs=["VC_STUB_STRLEN"], replace=["binson_parser_field_with_length", "vc_strlen"])
    e1("binson_parser_field_ensure", LKP, defs=["VC_STUB_STRLEN"], replace=["binson_parser_field_ensure_with_length", "vc_strlen"])
    e1("binson_parser_field_ensure_with_length", LKP, replace=["binson_parser_field_with_length", "binson_parser_get_type"])
    GRP = {"C01": "*", "C09": "*", "C06": "*", "C18": "*", "C08": "*"}
    e1("binson_parser_get_raw", {"C11": "*"}, replace=["_advance_parsing"], defs=["VC_H_MD=1"], name="E1/binson_parser_get_raw/md=1",
       timeout=2400, mem=10, note="max_depth fixed to 1 in this run (state array typed): enumerated, not symbolic; ~7-9 min: registered for the other properties in the thorough tier only")
    also_thorough("E1/binson_parser_get_raw/md=1", GRP)
    e1("binson_parser_get_raw", dict(GRP, C11="*"), replace=["_advance_parsing"], defs=["VC_H_MD=3"], name="E1/binson_parser_get_raw/md=3",
       timeout=3600, mem=10, tier="thorough", note="max_depth fixed to 3 in this run (state array typed): enumerated, not symbolic")
    e1("binson_parser_string_equals", dict(GETP), defs=["VC_STUB_STRLEN"], replace=["vc_strlen", "_cmp_name"])
    e1("binson_parser_get_depth", {"C01": "*", "C06": "*", "C12": "*", "C18": "*"})

    # ---- writer
    WP = {"C04": "*", "C05": "*", "C09": "*", "C10": "*", "C18": "*", "C16": "*"}
    e1("_write", WP, harness=HW)
    e1("_int_pack_size", {"C05": "*", "C10": "*", "C18": "*", "C04": "*", "C16": "*"}, harness=HW, unwind=9,
       note="pack loop <= 8 iterations by type: --unwind 9 with unwinding assertions is complete")

    J.append(Job("E3/_write-overlapping-source/cap=8", "E3", HW, "h__write_overlap", {"C18": "*", "C04": "*"},
                 defs=["VC_HARNESS_OBJECTS"], cbmc_args=["--unwind", "14", "--unwinding-assertions"], timeout=900, mem_gb=6,
                 note="BOUNDED (capacity 8, every counter / offset / length): the source of a write lies inside the destination buffer; real _write, CBMC's library models of memmove/memcpy (memcpy asserts non-overlap)"))
    e1("_write_token", WP, harness=HW, replace=["_write", "_int_pack_size"], timeout=900)
    for fn in ("binson_write_object_begin", "binson_write_object_end", "binson_write_array_begin",
               "binson_write_array_end", "binson_write_boolean"):
        e1(fn, WP, harness=HW, replace=["_write_token"])

    for fn in ("binson_write_integer", "binson_write_double", "binson_write_string_with_len", "binson_write_bytes"):
        e1(fn, WP, harness=HW, replace=["_write_token"])
    e1("binson_write_raw", dict(WP, C11="*"), harness=HW, replace=["_write"])
    for fn in ("binson_writer_init", "binson_writer_reset", "binson_writer_get_counter"):
        e1(fn, {"C04": "*", "C09": "*", "C12": "*", "C18": "*"}, harness=HW)

    # ---- print callbacks (C13 / C14 / C16), abstract snprintf/printf stand-ins
    e1("_binson_to_string_cb", {"C13": "*"}, harness="contracts/h_printcb.c", loop=True,
       defs=["BINSON_PARSER_WITH_PRINT"], replace=["_check_boundary"], timeout=3600, mem=10,
       note="snprintf under the assumed C99 contract (stubs/vc_stdio_abs.h); hex loop closed by its loop invariant and decreases clause")
    also_thorough("E1/_binson_to_string_cb", {"C16": "*", "C17": "*", "C18": "*"})
    e1("_binson_print_cb", {"C14": "*", "C16": "*", "C17": "*", "C18": "*"}, harness="contracts/h_printcb.c", loop=True,
       defs=["BINSON_PARSER_WITH_PRINT"], timeout=1800, mem=8,
       note="printf abstracted to an event counter; hex loop closed by its loop invariant and decreases clause")

    J.append(Job("E1/binson_parser_to_string/verify-summarised", "E3", "contracts/h_tostring.c", "h_binson_parser_to_string",
                 {"C13": "*", "C18": "*", "C12": ["callback-removed", "callback-installed", "ctx-*"]}, defs=["BINSON_PARSER_WITH_PRINT"], cc_args=["-I/verif/stubs/shim_tostring"],
                 cbmc_args=[], timeout=900, mem_gb=4,
                 note="real binson_parser_to_string, loop-free; binson_parser_verify-in-print-mode replaced by a summary that asserts the callback precondition and abstracts the callbacks by their proved contract (assumption: induction over tokens); COMPLETE under that summary"))

    J.append(Job("E1/binson_parser_print/verify-summarised", "E3", "contracts/h_tostring.c", "h_binson_parser_print",
                 {"C12": "*", "C18": "*", "C01": "*"}, defs=["BINSON_PARSER_WITH_PRINT"], cc_args=["-I/verif/stubs/shim_tostring"],
                 cbmc_args=[], timeout=900, mem_gb=4,
                 note="real binson_parser_print, loop-free; binson_parser_verify-in-print-mode replaced by a summary that asserts the callback precondition (callback installed, live zeroed one-byte state) and abstracts the callbacks by their proved frame; the wrapper leaves no callback/context behind on any path; COMPLETE under that summary"))

    # ---- step contracts of _advance_parsing (complete: the loop runs a statically known 1-2 iterations)
    STEP = {1: ("array-nesting-limit", {"C02": "*", "C01": "*"}), 2: ("object-nesting-limit", {"C02": "*", "C01": "*", "C06": "*"}),
            3: ("next-scalar", {"C03": "*"}), 4: ("lookup-overshoot-rewind", {"C07": "*", "C08": "*", "C16": "*"})}
    STEP[5] = ("name-order", {"C02": "*", "C07": "*", "C08": "*"})
    STEP[6] = ("malformed-token-any-scan", {"C08": "*", "C02": "*"})
    STEP[7] = ("lookup-skip-then-overshoot", {"C16": "*", "C07": "*", "C06": "*"})
    STEP[8] = ("field-lookup-one-field", {"C07": "*"})      # names of 0..2 bytes, boolean value, ~5 min: quick for C07 only
    STEP_DEFS = {4: ["VC_STEP_MAXBUF=300"], 8: ["VC_STEP_MAXBUF=12"]}
    # (the same step with max_depth 255 / symbolic and a state array of exactly that size does not fit in memory: the
    #  limit of the 8-bit depth counter at max_depth = 255 is NOT covered; max_depth in {1,2,3} is)
    for sc, (nm, pr) in STEP.items():
        J.append(Job("E2/step/" + nm, "E3", "contracts/h_step.c", "h_step", pr, defs=["VC_SCEN=%d" % sc] + STEP_DEFS.get(sc, []),
                     tier="quick",
                     cbmc_args=["--unwind", "9", "--unwindset", "_advance_parsing.0:%d,binson_parser_field_with_length.0:3" % (5 if sc == 7 else 3), "--unwinding-assertions", "--slice-formula"], timeout=1800, mem_gb=16 if sc == 8 else 8,
                     note="real _advance_parsing from a symbolic pre-state of one shape; the token loop provably runs <= 2 (scenario 7: 4) iterations (unwinding assertion), so this is COMPLETE for that shape; tokens within the first 64 bytes behind the cursor"))

    also_thorough("E2/step/next-scalar", {"C10": "*", "C06": "*"})
    also_thorough("E2/step/field-lookup-one-field", {"C01": "*", "C08": "*"})
    J.append(Job("E2/step/field-lookup-one-field/names<=4", "E3", "contracts/h_step.c", "h_step", {"C07": "*", "C01": "*"},
                 defs=["VC_SCEN=8", "VC_STEP_MAXBUF=24", "VC_STEP8_NAME=4"], tier="thorough",
                 cbmc_args=["--unwind", "9", "--unwindset", "_advance_parsing.0:3,binson_parser_field_with_length.0:3", "--unwinding-assertions", "--slice-formula"],
                 timeout=5400, mem_gb=16, note="as field-lookup-one-field with names of 0..4 bytes (10-18 min)"))

    # ---- round-trip lemmas on the real encoder/decoder pair (complete: loops bounded by operand width)
    for nm in ("parse_pack", "pack_parse", "double"):
        J.append(Job("E1/lemma_" + nm, "E3", "contracts/h_lemmas.c", "h_lemma_" + nm, {"C05": "*", "C10": "*", "C03": "*", "C18": "*"},
                     cbmc_args=["--unwind", "9", "--unwinding-assertions"], timeout=900, mem_gb=4,
                     note="plain CBMC, no contracts needed: both functions are loop-bounded by the operand width, all 2^64 inputs; COMPLETE (not a bounded stand-in)"))

    # ---- C18: the byte-order / char-signedness sensitive functions again under the unsigned plain-char model
    import copy
    for base in [x for x in J if x.name in ("E1/_cmp_name", "E1/_process_one", "E1/_parse_integer", "E1/binson_parser_string_equals",
                                             "E1/_int_pack_size", "E1/_write_token", "E1/binson_write_string_with_len")]:
        u = copy.copy(base)
        u.name = base.name + "/unsigned-char"
        u.cc_args = ["-funsigned-char"]
        u.props = {"C18": "*"}
        u.tier = "thorough"
        u.note = (base.note + "; " if base.note else "") + "compiled with -funsigned-char (plain char unsigned, as on ARM)"
        J.append(u)

    # ---- E4 static facts (C17)
    for tagp, defs in (("print", ["BINSON_PARSER_WITH_PRINT"]), ("noprint", [])):
        J.append(Job("E4/static-facts/" + tagp, "E4", "", "", {"C17": "*", "C16": ["S/acyclic"]}, defs=defs, timeout=120, mem_gb=2,
                     note="call graph / symbol table of the library goto binary built without any harness"))

    HW2 = "contracts/h_writer2.c"
    J.append(Job("E1/binson_write_name", "E1", HW2, "h_binson_write_name", WP, enforce="binson_write_string",
                 replace=["vc_strlen", "binson_write_string_with_len"], defs=["VC_HARNESS_OBJECTS", "VC_STUB_STRLEN"],
                 cbmc_args=["--slice-formula"], timeout=600, mem_gb=8,
                 note="the source defines binson_write_name, which the header renames to binson_write_string (the symbol under contract)"))
    e1("binson_parser_to_writer", {"C11": "*", "C04": "*", "C09": "*", "C18": "*"}, harness=HW2,
       replace=["binson_parser_get_raw", "binson_write_raw"], timeout=900, mem=14)
    e1("binson_writer_verify", {"C05": "*", "C17": "*", "C18": "*"}, harness=HW2,
       replace=["binson_parser_init_object", "binson_parser_verify"], timeout=900,
       note="precondition counter <= capacity: after an overflow the function hands the parser a length beyond the buffer (observation recorded in DESIGN.md 10.10)")

    # ---- E2: _advance_parsing, loop closed by the in-source loop contract, max_depth enumerated
    ADV_PROPS = {"C01": "*", "C06": "*", "C07": "*", "C08": "*", "C09": "*", "C12": "*", "C16": "*", "C18": "*", "C02": "*",
                 "C05": "*", "C10": "*"}    # C05/C10: what the writer produces must be accepted and decoded by the parser
    NPART = 8
    for md, tmo, tier in ((1, 3600, "quick"), (2, 7200, "thorough"), (3, 14400, "thorough")):
        for i in range(NPART):
            J.append(Job("E2/_advance_parsing/md=%d/part=%02d" % (md, i), "E2", "contracts/h_adv.c", "h_adv", ADV_PROPS,
                         enforce="_advance_parsing", defs=["VC_MD=%d" % md],
                         cbmc_args=["--unwindset", "h_adv.0:%d" % (md + 1), "--unwinding-assertions", "--slice-formula"],
                         timeout=tmo, mem_gb=7, mem_gate=4.5 if md == 1 else 6, tier=tier, part=(i, NPART),
                         note="legacy --apply-loop-contracts; function contract asserted by harness; max_depth=%d constant, all else symbolic; obligations split in %d shares run in parallel" % (md, NPART)))

    # ---- E3 bounded stand-ins (labelled bounded everywhere; never counted as proof)
    def e3(name, harness, entry, props, defs, unwind, tier="quick", timeout=1500, mem=8, note=""):
        J.append(Job("E3/" + name, "E3", harness, entry, props, defs=defs,
                     cbmc_args=["--unwind", str(unwind), "--unwinding-assertions"], timeout=timeout, mem_gb=mem,
                     tier=tier, note="BOUNDED: " + note))

    for n in range(2, 10):
        for root in (0, 1):
            for md in (1, 2, 3):
                tier = "quick" if (n <= 7 and md <= 2) or (n <= 6) else "thorough"
                e3("verify-iff-ref/N=%d/root=%s/d=%d" % (n, "oa"[root], md), "bounded/h_verify_ref.c", "h_verify_ref",
                   {"C02": "*", "C12": ["B/verify-canonical"], "C09": ["B/verify-false-has-error"]},
                   ["VC_N=%d" % n, "VC_MD=%d" % md, "VC_ROOT_ARRAY=%d" % root], max(9, n + 2), tier=tier,
                   note="all byte strings of exactly %d bytes, %s-rooted, max_depth %d" % (n, "array" if root else "object", md))

    # navigation / lookup / raw sequences against the reference cursor
    OPS = {"E": 1, "N": 2, "O": 3, "A": 4, "o": 5, "a": 6, "R": 7, "F": 8, "G": 9, "H": 10}
    NAV_PROPS = {"C06": "*", "C08": "*"}
    NAV_MORE = {"C03": ["B/nav-type", "B/nav-name-span", "B/nav-integer", "B/nav-boolean",
                "B/nav-string-span", "B/nav-bytes-span", "B/nav-double-bits"], "C09": ["B/nav-no-error"]}

    def nav(seq, root, n, tier, props=None, doc=None, extra_defs=(), md=3, pinned_regular=False):
        defs = ["VC_N=%d" % n, "VC_ROOT_ARRAY=%d" % root, "VC_MD=%d" % md] + ["VC_OP%d=%d" % (i, OPS[c]) for i, c in enumerate(seq)]
        if doc:
            defs.append("VC_DOC=" + ",".join("0x%02x" % b for b in doc))
        defs += list(extra_defs)
        pr = dict(NAV_PROPS)
        if props:
            pr.update(props)
        if doc and not pinned_regular:
            pr = {"C06": "*"}      # pinned shape of a listed known finding: reported under its own property only
        nm = "nav/%s/%s/N=%d%s" % ("oa"[root], seq, n, ("/pinned-" + bytes(doc).hex()[:40]) if pinned_regular else ("/pinned" if doc else ""))
        unw = max(9, n + 2)
        heavy = any(c in seq for c in "RFGH")
        uw = ["--unwind", str(unw), "--unwindset", "binson_parser_field_with_length.0:%d,ref_field.0:%d" % (n // 3 + 2, n // 3 + 2)]
        J.append(Job("E3/" + nm, "E3", "bounded/h_nav.c", "h_nav", pr, defs=defs,
                     cbmc_args=uw + ["--unwinding-assertions", "--no-standard-checks"],
                     timeout=240 if doc else 3600, mem_gb=6 if doc else (22 if heavy else 16),
                     mem_gate=1 if doc else (16 if heavy else 11), tier=tier,
                     note="BOUNDED: all valid %s-rooted documents of exactly %d bytes x call sequence %s (E enter root, N next, O/A go_into_object/array, o/a leave_object/array, R get_raw, F/G/H field lookups); memory-safety checks are off in this tier (they are decided by E1/E2)" % ("array" if root else "object", n, seq)))
        if doc and pinned_regular:
            J[-1].props.update(NAV_MORE)          # pinned runs are cheap: they serve the decode / latching tags too
        elif not doc:
            also_thorough("E3/" + nm, NAV_MORE)
        if not doc:
            J.append(Job("E3/" + nm + "/feasible", "E3", "bounded/h_nav.c", "h_nav", {k: [] for k in pr}, defs=defs + ["VC_NO_LIB"],
                         cbmc_args=uw + ["--unwinding-assertions", "--no-standard-checks"],
                         timeout=1200, mem_gb=8, tier=tier, note="reference-only run: is the sequence protocol-following on some valid document of this length?"))

    LK = {"C07": "*"}
    RW = {"C11": "*"}
    quick_nav = [("ENNo", 0, 7, None), ("ENANa", 1, 6, None)]
    for seq, root, n, pr in quick_nav:
        nav(seq, root, n, "quick", pr)
    thorough_nav = [("ENANaNa", 1, 6, None), ("ENONoN", 1, 6, None), ("ENONoo", 0, 7, None), ("ENo", 0, 7, None), ("EFN", 0, 7, LK), ("EFG", 0, 7, LK), ("EH", 0, 7, LK), ("ENRNo", 0, 7, RW),
                    ("ENNa", 1, 6, None), ("ENRN", 1, 6, RW), ("ENNa", 1, 7, None), ("ENANaNa", 1, 7, None), ("ENONoN", 1, 7, None),
                    ("ENNo", 0, 8, None), ("ENo", 0, 8, None)]
    for seq, root, n, pr in thorough_nav:
        nav(seq, root, n, "thorough", pr)
    # pinned documents x traversal strategies (sequences computed with the reference cursor, see vlib/pinned.py)
    from .pinned import PINNED, PINNED_LOOKUPS
    for k, (root, hexdoc, seq) in enumerate(PINNED):
        doc = list(bytes.fromhex(hexdoc))
        extra = {"C11": "*"} if "R" in seq else None
        nav(seq, root, len(doc), "quick", extra, doc=doc, pinned_regular=True, md=4)
    for k, (root, hexdoc, seq, n0, n1) in enumerate(PINNED_LOOKUPS):
        doc = list(bytes.fromhex(hexdoc))
        nav(seq, root, len(doc), "quick", {"C07": "*"}, doc=doc, pinned_regular=True, md=4,
            extra_defs=["VC_NM0=0x%02x" % n0, "VC_NM1=0x%02x" % n1])
    # pinned shapes of the listed known findings (concrete documents)
    nav("ENAaN", 1, 10, "quick", doc=[0x42, 0x42, 0x40, 0x41, 0x43, 0x40, 0x41, 0x10, 0x05, 0x43])     # [[{}],{},5]
    nav("ENa", 1, 8, "quick", doc=[0x42, 0x42, 0x10, 0x01, 0x43, 0x42, 0x43, 0x43])                    # [[1],[]]
    return J
