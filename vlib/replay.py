"""Replay files: every reported violation names its obligation and carries CBMC's output."""
import json
import os
import re

from . import core


def write_and_replay(pid, name, job, o, r):
    d = os.path.join(core.VERIF, "replay", "out")
    os.makedirs(d, exist_ok=True)
    fn = re.sub(r"[^A-Za-z0-9_.-]", "_", name)[:150] + ".json"
    path = os.path.join(d, fn)
    rec = {"property": pid, "obligation": name, "engine": job.engine, "job": job.name,
           "cbmc_property_id": o.get("id"), "description": o.get("desc"),
           "source": {"file": o.get("file"), "function": o.get("function"), "line": o.get("line")},
           "found_by": "cbmc-trace" if o.get("trace") else "none",
           "cbmc_cmd": r.get("cbmc_cmd"), "cbmc_trace": o.get("trace", []),
           "cbmc_output_tail": r.get("messages_tail", "")}
    found = False
    rec["native_replay"] = {"attempted": False}
    with open(path, "w") as f:
        json.dump(rec, f, indent=1)
    return path, found


def replay_file(path):
    with open(path) as f:
        rec = json.load(f)
    print(json.dumps({k: rec[k] for k in ("property", "obligation", "description", "source")}, indent=1))
    return 0
