"""Replay files: every reported violation names its obligation and carries CBMC's output; where the
counterexample can be turned into concrete inputs it is re-executed natively against the real code
(replay/replay.c: clang ASan+UBSan, exact-size heap objects, oracle = executable specification)."""
import json
import os
import re
import subprocess

from . import core

DRIVER_SRC = os.path.join(core.VERIF, "replay", "replay.c")


def build_driver():
    d = os.path.join(core.WORK, "replay.%d" % os.getpid())
    os.makedirs(d, exist_ok=True)
    exe = os.path.join(d, "replay")
    cmd = ["clang", "-g", "-O1", "-fsanitize=address,undefined", "-fno-sanitize-recover=all",
           "-DBINSON_PARSER_WITH_PRINT", "-I" + os.path.join(core.REPO, "include"), "-I" + os.path.join(core.REPO, "src"),
           "-I" + os.path.join(core.VERIF, "spec"), DRIVER_SRC, "-o", exe]
    r = subprocess.run(cmd, capture_output=True, text=True, timeout=300)
    if r.returncode != 0:
        return None, r.stderr[-2000:]
    return exe, ""


def _defs(job):
    d = {}
    for x in job.defs:
        if "=" in x:
            k, v = x.split("=", 1)
            d[k] = v
        else:
            d[x] = "1"
    return d


def _trace_array(trace, name, n):
    vals = {}
    for t in trace or []:
        m = re.match(r"^%s\[(\d+)l?\]$" % re.escape(name), t.get("lhs") or "")
        if m and t.get("bin"):
            vals[int(m.group(1))] = int(t["bin"].replace(" ", ""), 2) & 0xFF
        elif m and t.get("value") is not None:
            try:
                vals[int(m.group(1))] = int(str(t["value"]).rstrip("ul")) & 0xFF
            except ValueError:
                pass
    if len(vals) < n:
        return None
    return bytes(vals[i] for i in range(n))


def scenario_from(job, o):
    """Turn a CBMC counterexample of a known harness family into a replay scenario (text), or None."""
    d = _defs(job)
    tr = o.get("trace") or []
    if job.harness.endswith("h_verify_ref.c") or job.harness.endswith("h_nav.c"):
        n = int(d.get("VC_N", "0"))
        if "VC_DOC" in d:
            buf = bytes(int(x, 16) for x in d["VC_DOC"].split(","))
        else:
            buf = _trace_array(tr, "vc_wit", n)
        if buf is None:
            return None
        root = "array" if d.get("VC_ROOT_ARRAY") == "1" else "object"
        lines = ["root " + root, "max_depth " + d.get("VC_MD", "3"), "prefill ab", "buffer " + buf.hex()]
        if job.harness.endswith("h_verify_ref.c"):
            return "\n".join(["kind verify"] + lines) + "\n"
        inv = {1: "E", 2: "N", 3: "O", 4: "A", 5: "o", 6: "a", 7: "R", 8: "F", 9: "G", 10: "H"}
        seq = "".join(inv.get(int(d.get("VC_OP%d" % i, "0")), "") for i in range(24))
        nm = bytes([int(d["VC_NM0"], 0), int(d["VC_NM1"], 0)]) if "VC_NM0" in d else (_trace_array(tr, "nm", 2) or b"ab")
        return "\n".join(["kind parser_seq"] + lines + ["calls " + seq, "name_a %02x" % nm[0], "name_b %02x" % nm[1]]) + "\n"
    def tv(name):
        for t in reversed(tr):
            if t.get("lhs") == name and t.get("value") is not None:
                try:
                    return int(str(t["value"]).rstrip("ul").replace("TRUE", "1").replace("FALSE", "0"))
                except ValueError:
                    if t.get("bin"):
                        b = t["bin"].replace(" ", "")
                        v = int(b, 2)
                        return v - (1 << len(b)) if b[0] == "1" and "i64" in name else v
        return None
    if job.entry == "h__parse_integer":
        n = tv("vc_wit_an"); a = _trace_array(tr, "vc_wit_a", 8); fl = tv("vc_wit_flag")
        if n and a is not None and fl is not None:
            return "kind parse_integer\nbuffer %s\ncheck %d\n" % (a[:n].hex(), 1 if fl else 0)
    if job.entry in ("h__cmp_name", "h__cmp_name_direct"):
        an, bn = tv("vc_wit_an"), tv("vc_wit_bn"); a = _trace_array(tr, "vc_wit_a", 8); b = _trace_array(tr, "vc_wit_b", 8)
        if an is not None and bn is not None and an <= 8 and bn <= 8 and a is not None and b is not None:
            return "kind cmp_name\nname_a %s\nname_b %s\n" % (a[:an].hex(), b[:bn].hex())
    if job.entry == "h__write":
        cap, used, ln, er, hb = tv("vc_wit_cap"), tv("vc_wit_used"), tv("vc_wit_len"), tv("vc_wit_err"), tv("vc_wit_flag")
        if None not in (cap, used, ln, hb) and cap <= 4096 and ln <= 4096:
            ev = {"BINSON_ERROR_NONE": 0, "BINSON_ERROR_RANGE": 1, "BINSON_ERROR_FORMAT": 2, "BINSON_ERROR_NULL": 5, "BINSON_ERROR_STATE": 6}
            e = er if isinstance(er, int) else 0
            for t in reversed(tr):
                if t.get("lhs") == "vc_wit_err":
                    for k, v in ev.items():
                        if k in str(t.get("value")):
                            e = v
                    break
            return "kind write_piece\ncapacity %d\nused %d\nlen %d\nerr %d\nhas_buffer %d\n" % (cap, used, ln, e, 1 if hb else 0)
    if job.entry == "h__int_pack_size":
        v = tv("vc_wit_i64"); fl = tv("vc_wit_flag")
        if v is not None and fl is not None:
            return "kind int_pack\nvalue %d\nis_double %d\n" % (v, 1 if fl else 0)
    return None


def write_and_replay(pid, name, job, o, r):
    d = os.path.join(core.VERIF, "replay", "out")
    os.makedirs(d, exist_ok=True)
    base = re.sub(r"[^A-Za-z0-9_.-]", "_", name)[:150]
    path = os.path.join(d, base + ".json")
    rec = {"property": pid, "obligation": name, "engine": job.engine, "job": job.name,
           "cbmc_property_id": o.get("id"), "description": o.get("desc"),
           "source": {"file": o.get("file"), "function": o.get("function"), "line": o.get("line")},
           "found_by": "cbmc-trace" if o.get("trace") else "none",
           "cbmc_cmd": r.get("cbmc_cmd"), "defs": job.defs, "cbmc_trace": [t for t in (o.get("trace") or []) if (t.get("lhs") or "").startswith(("vc_wit", "nm["))] + (o.get("trace") or [])[-120:],
           "cbmc_output_tail": r.get("messages_tail", "")}
    found = False
    rec["native_replay"] = {"attempted": False}
    scen = None
    try:
        scen = scenario_from(job, o)
    except Exception as e:
        rec["native_replay"] = {"attempted": False, "error": repr(e)}
    if scen:
        sp = os.path.join(d, base + ".scenario")
        with open(sp, "w") as f:
            f.write(scen)
        rec["scenario_file"] = sp
        rec["scenario"] = scen
        rc, out = run_scenario(sp)
        rec["native_replay"] = {"attempted": True, "rc": rc, "output_tail": out[-3000:]}
        found = rc not in (0, None, 2)
    with open(path, "w") as f:
        json.dump(rec, f, indent=1)
    return path, found


def run_scenario(sp):
    exe, err = build_driver()
    if not exe:
        return None, "replay driver does not build: " + err
    env = dict(os.environ, ASAN_OPTIONS="detect_leaks=0:abort_on_error=0")
    try:
        r = subprocess.run([exe, sp], capture_output=True, text=True, timeout=120, env=env)
        return r.returncode, (r.stdout or "") + (r.stderr or "")[-2000:]
    except subprocess.TimeoutExpired:
        return 124, "native replay timed out (possible non-termination)"


def replay_file(path):
    """./check --replay <file>: re-run the native replay of a recorded violation against /repo's current tree."""
    with open(path) as f:
        rec = json.load(f)
    print("property   :", rec.get("property"))
    print("obligation :", rec.get("obligation"))
    print("description:", rec.get("description"))
    print("source     :", rec.get("source"))
    if rec.get("scenario"):
        sp = path[:-5] + ".scenario" if path.endswith(".json") else path + ".scenario"
        with open(sp, "w") as f:
            f.write(rec["scenario"])
        rc, out = run_scenario(sp)
        print(out[-3000:])
        return 1 if rc not in (0, None, 2) else 0
    print("no concrete input recorded for this obligation (no-failing-input-found); CBMC output:")
    print((rec.get("cbmc_output_tail") or "")[-1500:])
    return 0
