"""Per-property orchestration: which jobs decide a property, verdicts, known findings, evidence."""
import concurrent.futures as cf
import json
import os
import re
import sys
import threading
import time

from . import core, jobs as jobsmod
from .meta import PROPS, COMMON_ASSUMPTIONS, TRUSTED_BASE

MEM_BUDGET_GB = int(os.environ.get("VERIF_MEM_GB", "56"))


def jobs_for(pid, tier):
    out = []
    for j in jobsmod.all_jobs():
        if pid in j.props and (j.tier == "quick" or tier == "thorough"):
            if tier == "quick" and getattr(j, "thorough_only", False):
                continue
            out.append(j)
    return out


class MemGate:
    def __init__(self, budget):
        self.budget = budget
        self.used = 0
        self.cv = threading.Condition()

    def acquire(self, n):
        with self.cv:
            while self.used > 0 and self.used + n > self.budget:
                self.cv.wait()
            self.used += n

    def release(self, n):
        with self.cv:
            self.used -= n
            self.cv.notify_all()


def load_known():
    p = os.path.join(core.VERIF, "known_findings.json")
    if not os.path.exists(p):
        return {"findings": [], "fixed": []}
    with open(p) as f:
        return json.load(f)


def obligation_name(pid, job, o, tags):
    tag = o.get("tag") or tags.get((o["file"], o["line"]))
    if tag is None:
        # CBMC-generated safety obligation: name it by function and class
        desc = re.sub(r"[^a-z0-9]+", "-", (o.get("desc") or "obligation").lower()).strip("-")[:48]
        tag = "%s@%s:%d" % (desc, o["function"], o["line"])
    return "%s/%s/%s" % (pid, job.name, tag), tag


def relevant(job, pid, tag, is_tagged):
    spec = job.props.get(pid)
    if spec is None:
        return False
    if spec == "*":
        return True
    if is_tagged:
        return any(tag == s or (s.endswith("*") and tag.startswith(s[:-1])) for s in spec)
    return "safety" in spec


def run_property(pid, tier, use_cache=True, njobs=16, only=None, verbose=False):
    t0 = time.time()
    seed = int(os.environ.get("VERIF_SEED", "0") or 0)
    meta = PROPS[pid]
    js = jobs_for(pid, tier)
    if only:
        js = [j for j in js if only in j.name]
    if not js:
        print("no jobs registered for", pid, file=sys.stderr)
        return 2
    tags = core.load_tags()
    gate = MemGate(MEM_BUDGET_GB)
    results = {}

    def work(j):
        gate.acquire(j.mem_gate)
        try:
            if j.engine == "E4":
                from . import static
                return static.run_static(j)
            return core.run_job(j, use_cache=use_cache)
        finally:
            gate.release(j.mem_gate)

    # longest first
    order = sorted(js, key=lambda j: -j.timeout)
    with cf.ThreadPoolExecutor(max_workers=max(1, njobs)) as ex:
        futs = {ex.submit(work, j): j for j in order}
        for fu in cf.as_completed(futs):
            j = futs[fu]
            try:
                r = fu.result()
            except Exception as e:  # machinery fault
                r = {"job": j.name, "status": "undecided", "reason": "runner exception: %r" % (e,),
                     "obligations": [], "n": 0, "n_ok": 0, "engine": j.engine}
            results[j.name] = r
            if verbose or r["status"] != "pass":
                print("[%s] %-44s %-9s n=%-5d %6.1fs %s %s" % (
                    pid, j.name, r["status"], r.get("n", 0), r.get("solver_s", r.get("wall_s", 0)),
                    "(cached)" if r.get("cache") else "", r.get("reason", "")[:300]), file=sys.stderr)

    known = load_known()
    violations = []      # (obligation name, job, obligation dict)
    known_hits = []
    undecided = []
    n_obl = n_ok = 0
    per_job = []
    samples = []
    vacuity_problems = []
    kf_replayed = set()
    for j in js:
        r = results[j.name]
        if r["status"] == "undecided":
            undecided.append((j.name, r.get("reason", "")))
        rel_n = rel_ok = 0
        n_vac = 0
        for o in r.get("obligations", []):
            name, tag = obligation_name(pid, j, o, tags)
            is_tagged = (o["file"], o["line"]) in tags or bool(o.get("tag"))
            if (o.get("desc") or "").startswith("vacuity control") and o.get("function") not in (j.entry, "", None):
                continue        # control of another harness function of the same file: not part of this run
            if (o.get("desc") or "").startswith("vacuity control"):
                # must-fail control behind a precondition: SUCCESS here means the contract is vacuous
                n_vac += 1
                if o["status"] != "FAILURE":
                    vacuity_problems.append(name)
                continue
            if not relevant(j, pid, tag, is_tagged):
                continue
            rel_n += 1
            if o["status"] == "SUCCESS":
                rel_ok += 1
                if is_tagged and len(samples) < 12:
                    samples.append({"obligation": name, "status": "SUCCESS", "text": o["desc"][:160]})
            else:
                kf = match_known(known, pid, j.name, tag, o)
                if kf:
                    known_hits.append((kf, name))
                    if kf["id"] not in kf_replayed:
                        kf_replayed.add(kf["id"])
                        try:
                            from . import replay
                            replay.write_and_replay(pid, name, j, o, r)
                        except Exception:
                            pass
                else:
                    violations.append((name, j, o, r))
        if r["status"] in ("pass", "fail") and j.engine in ("E1", "E2") and n_vac == 0 and \
                not (j.part and j.part[0] != 0):
            vacuity_problems.append("%s: no vacuity control in harness" % j.name)
        n_obl += rel_n
        n_ok += rel_ok
        per_job.append({"job": j.name, "engine": j.engine, "status": r["status"], "enforce": j.enforce,
                        "replace_with_contract": j.replace, "obligations": rel_n, "discharged": rel_ok,
                        "all_obligations_in_run": r.get("n", 0), "solver_s": r.get("solver_s"),
                        "cached": bool(r.get("cache")), "backend": "cbmc 6.11.0 / " + str(r.get("backend", "minisat2")) + " (SAT)",
                        "cmd": r.get("cbmc_cmd", ""), "note": j.note, "reason": r.get("reason"), "stats": r.get("stats", {}),
                        "warnings": r.get("warnings", [])})

    # ---- report
    rc = 0
    seen_kf = set()
    for kf, name in known_hits:
        if kf["id"] in seen_kf:
            continue
        seen_kf.add(kf["id"])
        print("KNOWN-FINDING: property=%s %s" % (pid, kf["what"]))
    os.makedirs(os.path.join(core.VERIF, "replay", "out"), exist_ok=True)
    reported = set()
    per_job_count = {}
    for name, j, o, r in violations:
        if name in reported:
            continue
        reported.add(name)
        per_job_count[j.name] = per_job_count.get(j.name, 0) + 1
        if per_job_count[j.name] > 6:
            continue        # one broken function can fail hundreds of generated safety obligations: report the first six per run
        from . import replay
        path, found = replay.write_and_replay(pid, name, j, o, r)
        print("VIOLATION property=%s replay=%s%s" % (pid, path, "" if found else " no-failing-input-found"))
        rc = 1
    for jn, c in sorted(per_job_count.items()):
        if c > 6:
            print("[%s] %s: %d more failed obligations of this run not listed (see evidence)" % (pid, jn, c - 6), file=sys.stderr)
    if vacuity_problems and rc == 0:
        print("[%s] vacuity control(s) did not fail: %s" % (pid, vacuity_problems[:5]), file=sys.stderr)
        rc = 2
    if undecided and rc == 0:
        for n, why in undecided:
            print("[%s] UNDECIDED %s: %s" % (pid, n, why[:500]), file=sys.stderr)
        rc = 2

    write_evidence(pid, tier, seed, meta, js, per_job, n_obl, n_ok, samples, violations, known_hits,
                   undecided, time.time() - t0, native_replays=len(kf_replayed) + len(reported), partial=bool(only) or core.REPO != "/repo")
    print("[%s] tier=%s jobs=%d obligations=%d discharged=%d known=%d violations=%d undecided=%d wall=%.0fs -> exit %d" % (
        pid, tier, len(js), n_obl, n_ok, len(seen_kf), len(reported), len(undecided), time.time() - t0, rc),
        file=sys.stderr)
    return rc


_assume_cache = None


def scan_assumes():
    """file -> number of __CPROVER_assume statements (harness pre-state constraints, stub contracts, bound restrictions)"""
    global _assume_cache
    if _assume_cache is None:
        out = {}
        for root in ("contracts", "bounded", "stubs"):
            d = os.path.join(core.VERIF, root)
            for dirpath, dirs, files in os.walk(d):
                for fn in sorted(files):
                    if fn.endswith((".c", ".h")):
                        with open(os.path.join(dirpath, fn), errors="replace") as f:
                            n = sum(1 for line in f if "__CPROVER_assume" in line)
                        if n:
                            out[os.path.relpath(os.path.join(dirpath, fn), core.VERIF)] = n
        # the in-source contracts must not contain any
        for f in core.SRC_FILES:
            pth = os.path.join(core.REPO, f)
            if os.path.exists(pth):
                with open(pth, errors="replace") as fh:
                    n = sum(1 for line in fh if "__CPROVER_assume" in line)
                out["repo:" + f] = n
        _assume_cache = out
    return _assume_cache


def match_known(known, pid, jobname, tag, o):
    for kf in known.get("findings", []):
        if kf.get("property") != pid:
            continue
        m = kf.get("match", {})
        if "job" in m and not re.search(m["job"], jobname):
            continue
        if "obligation" in m and not re.search(m["obligation"], tag):
            continue
        return kf
    return None


def write_evidence(pid, tier, seed, meta, js, per_job, n_obl, n_ok, samples, violations, known_hits,
                   undecided, wall, native_replays=0, partial=False):
    level = meta["level"]
    fns = sorted({j.enforce for j in js if j.enforce})
    cov = {
        "obligations": n_obl,
        "discharged": n_ok,
        "checker_cmd": "goto-cc -D%s + goto-instrument (--dfcc --enforce-contract F [--replace-call-with-contract G] | --apply-loop-contracts) + cbmc --object-bits 10 (per job: see jobs[].cmd)" % core.GUARD,
        "trusted_base": TRUSTED_BASE + meta.get("trusted", []),
        "functions_under_contract": fns,
        "jobs": per_job,
        "samples": samples[:12] or [{"obligation": "(none tagged)"}],
        "solver_s_total": round(sum((p.get("solver_s") or 0) for p in per_job), 1),
        "exhaustive": False,
        "known_findings_hit": sorted({k["id"] for k, _ in known_hits}),
        "undecided_jobs": [u[0] for u in undecided],
        "explanation": meta.get("explanation", ""),
    }
    # mechanical scan of what is assumed rather than proved
    enforced = {x.enforce for x in jobsmod.all_jobs() if x.enforce}
    replaced = set()
    for x in js:
        replaced.update(x.replace)
    cov["contracts_assumed_not_enforced"] = sorted(replaced - enforced)
    cov["contracts_used_and_enforced_elsewhere"] = sorted(replaced & enforced)
    cov["assume_statements_in_harnesses"] = scan_assumes()
    bounded = [p for p in per_job if p["engine"] == "E3"]
    cov["symex_steps_total"] = sum((p.get("stats") or {}).get("symex_steps", 0) for p in per_job)
    cov["sat_clauses_total"] = sum((p.get("stats") or {}).get("sat_clauses", 0) for p in per_job)
    if level == "model_checking":
        # CBMC explores symbolically: one "state" is one step of the symbolic execution (an SSA state that stands for
        # all concrete states reaching that program point within the bound), one "transition" is one clause of the
        # propositional encoding of the transition relation handed to the SAT solver. Both are measured per run.
        cov["states"] = max(1, cov["symex_steps_total"])
        cov["transitions"] = max(1, cov["sat_clauses_total"])
        cov["traces_validated_against_impl"] = native_replays
        # bounded stand-in: report in the generic keys (CBMC has no explicit state count)
        cov["evaluations"] = len(per_job)
        cov["distinct_nontrivial"] = sum(1 for p in per_job if p["obligations"] > 0 and p["status"] in ("pass", "fail"))
        cov["rule"] = ("one evaluation = one CBMC run (one harness x one bound configuration); it is non-trivial when it "
                       "generated at least one obligation relevant to this property and CBMC decided all of them; "
                       "each bounded run covers ALL inputs up to its stated bound symbolically")
        cov["bounded"] = meta.get("bounded", {})
        cov["bounded_jobs"] = len(bounded)
    ev = {
        "property_id": pid,
        "tier": tier,
        "seed": seed,
        "level": level,
        "coverage": cov,
        "assumptions": COMMON_ASSUMPTIONS + meta.get("assumptions", []),
        "wall_s": round(wall, 1),
        "violations": len({v[0] for v in violations}),
    }
    os.makedirs(os.path.join(core.VERIF, "evidence"), exist_ok=True)
    p = os.path.join(core.VERIF, "evidence", pid + (".partial" if partial else "") + ".json")
    with open(p + ".tmp", "w") as f:
        json.dump(ev, f, indent=1)
    os.replace(p + ".tmp", p)
