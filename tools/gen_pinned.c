/* Development tool: for a list of documents (hex, one per line: "<o|a> <hex>") print the call sequences
 * of a few deterministic traversal strategies, computed with the REFERENCE cursor (spec/ref_binson.h).
 * The output is pasted into vlib/pinned.py; the registered checks do not run this tool. */
#include <stdio.h>
#include <stdlib.h>
#include <string.h>
#define REF_MAXSTK 64
#include "ref_binson.h"
static uint8_t buf[256]; static size_t n; static int arr;
static void strat(int s)
{
    ref_cursor c; ref_cursor_init(&c, buf, n, arr);
    char seq[64]; int k = 0;
    seq[k++] = 'E'; ref_enter(&c);
    while (c.sp > 0 && k < 22) {
        if (s == 3 && c.have_cur && c.pending) { seq[k++] = 'R'; size_t o, l; ref_raw(&c, &o, &l); continue; }
        seq[k++] = 'N';
        if (ref_next(&c)) {
            if (c.pending && (s == 0 || s == 2)) {
                int a = (c.cur.kind == RT_ARR_BEGIN); seq[k++] = a ? 'A' : 'O'; ref_enter(&c);
                if (s == 2) { seq[k++] = c.kind[c.sp - 1] ? 'a' : 'o'; ref_leave(&c); }
            }
        } else { seq[k++] = c.kind[c.sp - 1] ? 'a' : 'o'; ref_leave(&c); }
    }
    seq[k] = 0;
    if (c.sp == 0 && !c.hazard) printf("    (%d, \"", arr), fwrite("", 0, 0, stdout);
    if (c.sp == 0 && !c.hazard) { for (size_t i = 0; i < n; i++) printf("%02x", buf[i]); printf("\", \"%s\"),\n", seq); }
}
int main(void)
{
    char line[1024];
    while (fgets(line, sizeof line, stdin)) {
        char r; char hex[1000];
        if (sscanf(line, " %c %999s", &r, hex) != 2) continue;
        arr = (r == 'a'); n = strlen(hex) / 2;
        for (size_t i = 0; i < n; i++) { unsigned v; sscanf(hex + 2 * i, "%2x", &v); buf[i] = (uint8_t) v; }
        int why; if (!ref_verify(buf, n, arr, 8, &why)) { fprintf(stderr, "invalid: %s", line); continue; }
        for (int s = 0; s < 4; s++) strat(s);
    }
    return 0;
}
