#!/bin/bash
# confirm a seeded change produced by a sub-agent: usage confirm_seed.sh <PID> <k> [extra demo cflags]
# copies it to /verif/seeded/<PID>-m<k>/ if (a) patch applies, (b) library compiles with strict flags,
# (c) full test suite passes with it, (d) demo fails with it and passes without it.
set -u
PID=$1; K=$2; SRC=/tmp/wt/$PID/out/m$K; WT=/tmp/wt/confirm_$PID$K; OUT=/verif/seeded/$PID-m$K
rm -rf "$WT"; git -C /repo worktree add -q --detach "$WT" HEAD || exit 2
cd "$WT" || exit 2
res() { echo "$1" | tee -a "$WT/confirm.log"; }
DEMOFLAGS="-std=c99 -DBINSON_PARSER_WITH_PRINT -Iinclude"
if grep -qi "fsanitize" "$SRC/notes.md" 2>/dev/null; then SAN="-fsanitize=address,undefined -fno-sanitize-recover=all -g"; else SAN=""; fi
gcc $DEMOFLAGS "$SRC/demo.c" src/binson_parser.c src/binson_writer.c -o demo_clean -lm 2>>confirm.log; timeout 60 ./demo_clean >demo_clean.out 2>&1; RC_CLEAN=$?
gcc $DEMOFLAGS $SAN "$SRC/demo.c" src/binson_parser.c src/binson_writer.c -o demo_clean_san -lm 2>>confirm.log; timeout 60 ./demo_clean_san >demo_clean_san.out 2>&1; RC_CLEAN_SAN=$?
git apply "$SRC/patch.diff" 2>/dev/null || git apply --3way "$SRC/patch.diff" || patch -p1 --fuzz=3 < "$SRC/patch.diff" || { res "patch does not apply"; exit 1; }
git reset -q; git diff > regenerated.diff
gcc -std=c99 -Werror -Wall -Wextra -Wpedantic -Wshadow -Wcast-qual -DBINSON_PARSER_WITH_PRINT -Iinclude -c src/binson_parser.c -o /dev/null && gcc -std=c99 -Werror -Wall -Wextra -Wpedantic -Wshadow -Wcast-qual -Iinclude -c src/binson_writer.c -o /dev/null || { res "strict compile fails"; exit 1; }
cmake -G Ninja -B _build -DBUILD_TESTS=ON -DCMAKE_BUILD_TYPE=RelWithDebInfo -DCMAKE_C_FLAGS=-Wno-error >/dev/null 2>&1 && cmake --build _build >/dev/null 2>&1
TESTS=$(ctest --test-dir _build -j8 --timeout 900 2>&1 | tail -3 | tr '\n' ' ')
gcc $DEMOFLAGS $SAN "$SRC/demo.c" src/binson_parser.c src/binson_writer.c -o demo_mut -lm 2>>confirm.log; timeout 60 ./demo_mut >demo_mut.out 2>&1; RC_MUT=$?
res "PID=$PID k=$K clean_rc=$RC_CLEAN clean_san_rc=$RC_CLEAN_SAN mut_rc=$RC_MUT tests: $TESTS"
OK=0
if [ $RC_CLEAN -eq 0 ] && [ $RC_CLEAN_SAN -eq 0 ] && [ $RC_MUT -ne 0 ] && echo "$TESTS" | grep -q "100% tests passed, 0 tests failed out of 3979"; then OK=1; fi
if [ $OK -eq 1 ]; then
  mkdir -p "$OUT"; cp regenerated.diff "$OUT/patch.diff"; cp "$SRC/demo.c" "$OUT/"; cp "$SRC/notes.md" "$OUT/agent_notes.md"
  tail -5 demo_mut.out > "$OUT/demo_with_change.out"
  echo "CONFIRMED san='$SAN' clean_rc=$RC_CLEAN mut_rc=$RC_MUT tests='$TESTS'" > "$OUT/confirm.txt"
  res "CONFIRMED -> $OUT"
else
  res "NOT CONFIRMED"
fi
cd /; git -C /repo worktree remove --force "$WT"
exit $((1-OK))
