#!/usr/bin/env python3
import json,glob,sys,os
pat=sys.argv[1]
best={}
for f in glob.glob('/verif/.cache/*.json'):
    r=json.load(open(f))
    if pat in r['job']:
        best[r['job']]=(os.path.getmtime(f),r) if r['job'] not in best or os.path.getmtime(f)>best[r['job']][0] else best[r['job']]
for job,(t,r) in best.items():
    print('==',job,r['status'],r.get('solver_s'))
    for o in r['obligations']:
        if o['status']!='SUCCESS' and not (o['desc'] or '').startswith('vacuity control'):
            print('  ',o['status'],o['id'],o['file'],o['line'],(o['desc'] or '')[:200])
