#!/bin/bash
# run every registered quick (or $1) check in order; summary at the end
T=${1:-quick}
cd /verif
for p in $(python3 -c "import json;print(' '.join(c['property_id'] for c in json.load(open('MANIFEST.json'))['checks']))"); do
  s=$(date +%s); ./check $p --tier $T > /tmp/runall_$p.out 2> /tmp/runall_$p.err; rc=$?; e=$(date +%s)
  echo "$p rc=$rc $((e-s))s $(grep -c ^VIOLATION /tmp/runall_$p.out) viol $(grep -c ^KNOWN /tmp/runall_$p.out) known | $(tail -1 /tmp/runall_$p.err | cut -c1-160)"
done
