#!/usr/bin/env python3
"""(Re)write seeded/<id>/meta.json from the confirmation record, the agent's notes and the detection results."""
import json, os, re
SD = '/verif/seeded'
res = {}
rp = os.path.join(SD, 'RESULTS.jsonl')
if os.path.exists(rp):
    for l in open(rp):
        try: r = json.loads(l)
        except Exception: continue
        res.setdefault(r['seed'], {})[(r['prop'], r['tier'])] = r      # last run wins
for s in sorted(os.listdir(SD)):
    d = os.path.join(SD, s)
    if not os.path.isdir(d): continue
    notes = open(os.path.join(d, 'agent_notes.md'), errors='replace').read() if os.path.exists(os.path.join(d, 'agent_notes.md')) else ''
    conf = open(os.path.join(d, 'confirm.txt')).read().strip() if os.path.exists(os.path.join(d, 'confirm.txt')) else ''
    files = sorted(set(re.findall(r'^\+\+\+ b/(\S+)', open(os.path.join(d, 'patch.diff')).read(), re.M)))
    needs = ''
    m = re.search(r'(?is)(needs|manifest)[^\n]*\n(.{0,900})', notes)
    if m: needs = (m.group(0)[:900]).strip()
    det = []
    for (p, tier), r in sorted(res.get(s, {}).items()):
        det.append({'check': './check %s --tier %s (VERIF_REPO=scratch worktree with the change applied)' % (p, tier), 'exit': r['rc'],
                    'violations': r['n_viol'], 'first_obligations': [os.path.basename(v).split('.json')[0] for v in r['violations'][:4]], 'wall_s': r['wall_s']})
    meta = {'seed': s, 'property_broken': re.match(r'C\d+', s).group(0), 'files_touched': files,
            'produced_by': 'independent sub-agent given only the property text and a scratch worktree of /repo (nothing from /verif)',
            'what_it_needs_to_manifest': needs or notes[:900],
            'confirmation': {'what_i_ran': 'tools/confirm_seed.sh: patch applied to a scratch worktree of /repo HEAD; strict -Werror compile of both library files; full cmake/ctest suite (3979 tests); demo.c built and run with and without the change', 'result': conf},
            'detection': det}
    json.dump(meta, open(os.path.join(d, 'meta.json'), 'w'), indent=1)
print('meta written')
