#!/usr/bin/env python3
"""Run registered checks against seeded changes, each in a scratch worktree of /repo (VERIF_REPO).
usage: run_seeds.py [--tier quick] [--props C04,C05] [seed ...]   (default: all seeds, own property only)
Results are appended to /verif/seeded/RESULTS.jsonl"""
import json, os, subprocess, sys, time, argparse
ap = argparse.ArgumentParser(); ap.add_argument('seeds', nargs='*'); ap.add_argument('--tier', default='quick'); ap.add_argument('--props', default=None); ap.add_argument('--timeout', type=int, default=3600); ap.add_argument('--only', default=None)
a = ap.parse_args()
SD = '/verif/seeded'
seeds = a.seeds or sorted(d for d in os.listdir(SD) if os.path.isdir(os.path.join(SD, d)))
for s in seeds:
    import re as _re; pid = _re.match(r'C\d+', s).group(0)
    props = a.props.split(',') if a.props else [pid]
    wt = '/tmp/wt/seedrun_%s' % s
    subprocess.run(['git', '-C', '/repo', 'worktree', 'remove', '--force', wt], capture_output=True)
    subprocess.run(['git', '-C', '/repo', 'worktree', 'prune'])
    r = subprocess.run(['git', '-C', '/repo', 'worktree', 'add', '-q', '--detach', wt, 'HEAD'], capture_output=True, text=True)
    if r.returncode: print(s, 'worktree failed', r.stderr); continue
    # carry uncommitted annotation edits of /repo over to the scratch tree
    d = subprocess.run(['git', '-C', '/repo', 'diff', 'HEAD'], capture_output=True, text=True).stdout
    if d.strip(): subprocess.run(['git', '-C', wt, 'apply'], input=d, text=True)
    ok = False
    for cmd in (['git', '-C', wt, 'apply', '-C1', os.path.join(SD, s, 'patch.diff')], ['patch', '-d', wt, '-p1', '--fuzz=3', '-i', os.path.join(SD, s, 'patch.diff')]):
        if subprocess.run(cmd, capture_output=True).returncode == 0: ok = True; break
    if not ok: print(s, 'PATCH DOES NOT APPLY'); subprocess.run(['git', '-C', '/repo', 'worktree', 'remove', '--force', wt]); continue
    for p in props:
        t0 = time.time()
        env = dict(os.environ, VERIF_REPO=wt)
        try:
            r = subprocess.run(['/verif/check', p, '--tier', a.tier] + (['--only', a.only] if a.only else []), capture_output=True, text=True, env=env, timeout=a.timeout)
            rc, out = r.returncode, r.stdout
        except subprocess.TimeoutExpired:
            rc, out = 124, ''
        viol = [l for l in out.splitlines() if l.startswith('VIOLATION')]
        rec = {'seed': s, 'prop': p, 'tier': a.tier, 'rc': rc, 'violations': [v.split('replay=')[1] for v in viol][:8], 'n_viol': len(viol), 'wall_s': round(time.time() - t0), 'at': time.strftime('%H:%M:%S')}
        print(json.dumps(rec)); sys.stdout.flush()
        with open(os.path.join(SD, 'RESULTS.jsonl'), 'a') as f: f.write(json.dumps(rec) + '\n')
    subprocess.run(['git', '-C', '/repo', 'worktree', 'remove', '--force', wt])
