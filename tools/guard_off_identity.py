#!/usr/bin/env python3
"""With the guard off, the hooked sources must be token-identical to the pinned snapshot plus the fix: commits.
Builds the reference tree in a scratch worktree (snapshot + the fix: commits, no hook commit) and compares the
preprocessed token streams (gcc -E -P); the one identifier derived from __LINE__ (BINSON_PARSER_DEF) is normalised."""
import os, re, subprocess, sys, tempfile
log = subprocess.run(['git', '-C', '/repo', 'log', '--reverse', '--format=%h %s'], capture_output=True, text=True).stdout.splitlines()
snap = log[0].split()[0]
fixes = [l.split()[0] for l in log if l.split(' ', 1)[1].startswith('fix:')]
d = tempfile.mkdtemp(prefix='ref_', dir='/tmp')
subprocess.run(['git', '-C', '/repo', 'worktree', 'add', '-q', '--detach', d, snap], check=True)
ok = True
try:
    for c in fixes:
        p = subprocess.run(['git', '-C', '/repo', 'show', c, '--', 'src', 'include'], capture_output=True, text=True).stdout
        if subprocess.run(['git', '-C', d, 'apply', '-C1', '--recount'], input=p, text=True, capture_output=True).returncode:
            subprocess.run(['patch', '-d', d, '-p1', '--fuzz=3'], input=p, text=True, capture_output=True, check=True)
    def toks(path, inc, flags):
        out = subprocess.run(['gcc', '-E', '-P'] + flags + ['-I' + inc, path], capture_output=True, text=True, check=True).stdout
        return re.sub(r'state_data\d+', 'state_dataN', out).split()
    for f, flags in (('src/binson_parser.c', ['-DBINSON_PARSER_WITH_PRINT']), ('src/binson_parser.c', []), ('src/binson_writer.c', [])):
        a = toks(os.path.join(d, f), os.path.join(d, 'include'), flags); b = toks('/repo/' + f, '/repo/include', flags)
        print(f, flags, 'identical' if a == b else 'DIFFERENT', len(a), len(b))
        ok &= (a == b)
finally:
    subprocess.run(['git', '-C', '/repo', 'worktree', 'remove', '--force', d])
print('snapshot', snap, 'fix commits', fixes)
sys.exit(0 if ok else 1)
