#!/usr/bin/env python3
"""Markdown table of the seeded changes and which check caught them (from seeded/RESULTS.jsonl, last run per seed/property wins)."""
import json, os, re
SD='/verif/seeded'
res={}
for l in open(os.path.join(SD,'RESULTS.jsonl')):
    try: r=json.loads(l)
    except Exception: continue
    res[(r['seed'],r['prop'])]=r
rows=[]
for s in sorted(d for d in os.listdir(SD) if os.path.isdir(os.path.join(SD,d))):
    pid=re.match(r'C\d+',s).group(0)
    m=json.load(open(os.path.join(SD,s,'meta.json'))) if os.path.exists(os.path.join(SD,s,'meta.json')) else {}
    r=res.get((s,pid))
    files=','.join(os.path.basename(f) for f in m.get('files_touched',[]))
    if not r: rows.append((s,files,'not run','',''))
    else:
        obl=[re.sub(r'^C\d+_','',os.path.basename(v.split(' ')[0]).replace('.json',''))[:70] for v in r['violations'][:2]]
        found=sum(1 for v in r['violations'] if 'no-failing-input-found' not in v)
        verdict={0:'MISSED (exit 0)',1:'caught',2:'undecided (exit 2)',124:'timed out'}.get(r['rc'],str(r['rc']))
        rows.append((s,files,verdict,'; '.join(obl), '%ds%s'%(r['wall_s'],', replayed natively' if found else '')))
print('| seed | file | quick check of its property | first failing obligations | time |')
print('|---|---|---|---|---|')
for r in rows: print('| %s | %s | %s | %s | %s |'%r)
c=sum(1 for r in rows if r[2]=='caught'); print('\ncaught %d of %d'%(c,len(rows)))
