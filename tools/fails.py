#!/usr/bin/env python3
# compact list of non-SUCCESS obligations per job from the latest work dirs (not the cache)
import json,glob,sys,os,collections
pat=sys.argv[1] if len(sys.argv)>1 else ''
for d in sorted(glob.glob('/verif/.work/*')):
    if pat not in d: continue
    f=os.path.join(d,'cbmc.json')
    if not os.path.exists(f): continue
    try: data=json.load(open(f))
    except Exception as e: print(os.path.basename(d),'unparsable json'); continue
    res=None; msgs=[]
    for el in data:
        if isinstance(el,dict):
            if 'result' in el: res=el['result']
            if 'messageText' in el and el.get('messageType')=='ERROR': msgs.append(el['messageText'][:150])
    c=collections.Counter(r['status'] for r in (res or []))
    bad=[r for r in (res or []) if r['status']!='SUCCESS' and not r['description'].startswith('vacuity control')]
    if bad or msgs or not res:
        print('==',os.path.basename(d),dict(c),msgs[:2])
        seen=set()
        for r in bad:
            k=(r['property'].rsplit('.',1)[0], r.get('sourceLocation',{}).get('line'))
            if k in seen: continue
            seen.add(k)
            if len(seen)>12: break
            print('   ',r['status'],r['property'],r.get('sourceLocation',{}).get('line'),r['description'][:110])
